(* Ty/CheckRulesProofs.v — facts about the interpreter of Ty/CheckRules.v that do not depend on the
   regenerated source: the specification `sem_ok` a meaning of the calls has to meet (one fact per
   function of types.go), list / node-field lemmas, the loop of `for _, n := range node.F { v.visit(n) }`
   against the model's vlist, one-step unfoldings of Checker.visit, integer facts for checkFunc. *)
From Coq Require Import ZArith Bool List String Lia.
Require Import X.Base.Num X.Base.Value X.Syn.Ast X.Sem.Prim X.Ty.Types X.Ty.TypesTable X.Ty.Checker
               X.Ty.CheckProofs X.Ty.CheckRules.
Import ListNotations.
Local Open Scope string_scope.
Local Open Scope list_scope.

(* ------------------------------------------------------------------ what a meaning of the calls must satisfy *)
Record sem_ok (c : cconfig) (M : sem) : Prop := {
  ok_tyconst : forall n, sm_tyconst M n = model_tyconst n;
  ok_isInterface : forall t, sm_call M "isInterface" [VT t] = Some (VB (is_interface t));
  ok_isInteger : forall t, sm_call M "isInteger" [VT t] = Some (VB (is_integer t));
  ok_isFloat : forall t, sm_call M "isFloat" [VT t] = Some (VB (is_floatt t));
  ok_isNumber : forall t, sm_call M "isNumber" [VT t] = Some (VB (is_number t));
  ok_isBool : forall t, sm_call M "isBool" [VT t] = Some (VB (is_bool t));
  ok_isString : forall t, sm_call M "isString" [VT t] = Some (VB (is_string t));
  ok_isArray : forall t, sm_call M "isArray" [VT t] = Some (VB (is_array t));
  ok_isMap : forall t, sm_call M "isMap" [VT t] = Some (VB (is_map t));
  ok_isStruct : forall t, sm_call M "isStruct" [VT t] = Some (VB (is_struct t));
  ok_isFunc : forall t, sm_call M "isFunc" [VT t] = Some (VB (is_func_nd t));
  ok_isComparable : forall l r, sm_call M "isComparable" [VT l; VT r] = Some (VB (is_comparable l r));
  ok_indexType : forall t, sm_call M "indexType" [VT t] = Some (opt_pair (index_type t));
  ok_isFuncType : forall t, sm_call M "isFuncType" [VT t] = Some (opt_pair (is_func_type_nd t));
  ok_fieldType : forall t name,
    sm_call M "fieldType" [VT t; VS name] =
    match field_type (te c) (cfuel c) t name with
    | LFound ft => Some (VTup [VT ft; VB true])
    | LMissing => Some (VTup [VT TNilT; VB false])
    | LFuel => None
    end;
  ok_methodType : forall t name,
    sm_call M "methodType" [VT t; VS name] =
    match method_type (te c) (cfuel c) t name with
    | LFound (ft, m) => Some (VTup [VT ft; VB m; VB true])
    | _ => Some (VTup [VT TNilT; VB false; VB false])
    end;
  ok_combined : forall a b,
    sm_call M "combined" [VT a; VT b] = match combined_ty a b with Some t => Some (VT t) | None => None end;
  ok_overload : forall fns otb l r,
    sm_call M "conf.FindSuitableOperatorOverload" [VFns fns; VTable otb; VT l; VT r] =
    match otb with
    | None => match fns with [] => Some (VTup [VT TNilT; VT TNilT; VB false]) | _ :: _ => None end
    | Some tb =>
        match find_overload tb fns l r with
        | Some (Some (t, _)) => Some (VTup [VT t; VT TNilT; VB true])
        | Some None => Some (VTup [VT TNilT; VT TNilT; VB false])
        | None => None
        end
    end;
  ok_arith : forall e, sm_arith M e = is_arith e;
  ok_setints : forall e t, sm_setints M e t = set_ints e t
}.

(* the model's own answers meet the specification *)
Lemma model_sem_ok c : sem_ok c (model_sem c).
Proof. constructor; intros; reflexivity. Qed.

(* ------------------------------------------------------------------ lists *)
Lemma nth_error_mid {A} (pre : list A) x rest : nth_error (pre ++ x :: rest) (List.length pre) = Some x.
Proof. induction pre as [|y pre IH]; cbn; [reflexivity|exact IH]. Qed.

Lemma set_nth_mid (pre : list expr) x y rest : set_nth (List.length pre) y (pre ++ x :: rest) = pre ++ y :: rest.
Proof. induction pre as [|z pre IH]; cbn; [reflexivity|]. rewrite IH. reflexivity. Qed.

Lemma app_cons_assoc {A} (pre : list A) x rest : pre ++ x :: rest = (pre ++ [x]) ++ rest.
Proof. rewrite <- app_assoc. reflexivity. Qed.

Lemma length_snoc {A} (pre : list A) x : List.length (pre ++ [x]) = S (List.length pre).
Proof. rewrite app_length. cbn. lia. Qed.

Lemma len_cons_eqb0 {A} (x : A) l : (Z.of_nat (List.length (x :: l)) =? 0)%Z = false.
Proof. apply Z.eqb_neq. cbn [List.length]. lia. Qed.

Lemma sub_self_1 z : (z - 1 - (z - 1))%Z = 0%Z.
Proof. lia. Qed.

(* ------------------------------------------------------------------ the is-a-function lookup, names kept *)
Lemma kind_under t : kind_of_ty (under t) = kind_of_ty t.
Proof. induction t; cbn; auto. Qed.

Lemma under_not_named t n u : under t <> TNamed n u.
Proof. induction t; cbn; try discriminate; auto. Qed.

Lemma deref_idem t : dereference (dereference t) = dereference t.
Proof. induction t; cbn; auto. Qed.

Lemma is_func_type_nd_spec t :
  match is_func_type_nd t with
  | Some fn =>
      (fn = TIface /\ is_func_type t = Some TIface)
      \/ (exists i v o, under fn = TFunc i v o /\ is_func_type t = Some (TFunc i v o) /\ is_interface fn = false
                        /\ is_nil_ty fn = false)
  | None => is_func_type t = None
  end.
Proof.
  unfold is_func_type_nd, is_func_type, is_interface, dk.
  rewrite <- (kind_under (dereference t)).
  destruct (under (dereference t)) eqn:U; cbn; auto.
  - right. exists ins, variadic, outs. rewrite deref_idem, <- kind_under, U. cbn.
    repeat split; auto. destruct (dereference t); cbn in U; try discriminate U; reflexivity.
  - exfalso. exact (under_not_named _ _ _ U).
Qed.

(* ------------------------------------------------------------------ one step of the interpreter *)
(* the bridge evaluates statement by statement: exec, exec_list, run_proc, range_loop stay folded and
   are opened by these equations, so that no continuation is ever evaluated on an unknown state *)
Section Steps.
Variable c : cconfig.
Variable M : sem.
Variable rec : list ty -> expr -> cst -> option (ty * expr * cst).
Variable self : expr.
Variable cp : string -> list gv -> gst -> (res -> res) -> res.

Notation EX := (exec c M rec self cp).
Notation EL := (exec_list c M rec self cp).
Notation EV := (eval c M self).

Lemma exec_list_nil s k : EL [] s k = k (RNormal s).
Proof. reflexivity. Qed.

Lemma exec_list_cons st rest s k :
  EL (st :: rest) s k = EX st s (fun o => match o with RNormal s' => EL rest s' k | _ => k o end).
Proof. reflexivity. Qed.

Lemma exec_assign xs e s k :
  EX (SAssign xs e) s k =
  match EV s e with
  | Some v => match bind_vars xs (match xs with [_] => [v] | _ => spread v end) s with
              | Some s' => k (RNormal s')
              | None => k (RPanic s)
              end
  | None => k (RPanic s)
  end.
Proof. reflexivity. Qed.

Lemma exec_visit x n s k :
  EX (SVisit x n) s k =
  match EV s n with
  | Some (VNode p) =>
      match get_node self p with
      | Some child =>
          match rec (g_cols s) child (g_err s) with
          | Some (t, child', er) =>
              k (RNormal (bind_var x (VT t) (set_err er (set_cur (set_node (g_cur s) p child') s))))
          | None => k (RPanic s)
          end
      | None => k (RPanic s)
      end
  | _ => k (RPanic s)
  end.
Proof. reflexivity. Qed.

Lemma exec_if cnd a b s k :
  EX (SIf cnd a b) s k =
  match EV s cnd with
  | Some (VB true) => EL a s k
  | Some (VB false) => EL b s k
  | _ => k (RPanic s)
  end.
Proof. reflexivity. Qed.

Notation SW := (switch_of c M self EL).

Lemma exec_switch tag cases dflt s k :
  EX (SSwitch tag cases dflt) s k =
  match EV s tag with
  | Some v => SW v dflt cases false s k
  | None => k (RPanic s)
  end.
Proof. reflexivity. Qed.

Lemma switch_nil v dflt falling s k :
  SW v dflt [] falling s k =
  if falling then k (RNormal s) else match dflt with Some d => EL d s k | None => k (RNormal s) end.
Proof. reflexivity. Qed.

Lemma switch_cons v dflt labels body fall r falling s k :
  SW v dflt ((labels, body, fall) :: r) falling s k =
  match (if falling then Some true else label_match c M self s v labels) with
  | Some true =>
      EL body s (fun o => match o with
                          | RNormal s' => if fall then SW v dflt r true s' k else k (RNormal s')
                          | _ => k o
                          end)
  | Some false => SW v dflt r false s k
  | None => k (RPanic s)
  end.
Proof. reflexivity. Qed.

Lemma exec_range i x l body s k :
  EX (SRange i x l body) s k =
  match EV s l with
  | Some (VNodes f) =>
      match get_list self f with
      | Some items =>
          range_loop (fun j s1 k1 =>
                        EL body (bind_var x (VNode (PIndex f j)) (bind_var i (VZ (Z.of_nat j)) s1))
                           (fun o => k1 (end_iteration (g_env s1) o)))
                     (List.length items) O s k
      | None => k (RPanic s)
      end
  | _ => k (RPanic s)
  end.
Proof. reflexivity. Qed.

Lemma exec_continue s k : EX SContinue s k = k (RContinue s).
Proof. reflexivity. Qed.

Lemma exec_return es s k :
  EX (SReturn es) s k = match evals c M self s es with Some vs => k (RReturn vs s) | None => k (RPanic s) end.
Proof. reflexivity. Qed.

Lemma exec_return_error n fam s k :
  EX (SReturnError n fam) s k =
  match EV s n with
  | Some (VNode p) => cp "error" [VNode p; VFam fam; VTup []] s k
  | _ => k (RPanic s)
  end.
Proof. reflexivity. Qed.

Lemma exec_return_call p args s k :
  EX (SReturnCall p args) s k =
  match evals c M self s args with Some vs => cp p vs s k | None => k (RPanic s) end.
Proof. reflexivity. Qed.

Lemma exec_return_fail e fam s k :
  EX (SReturnFail e fam) s k =
  match EV s e with Some v => k (RReturn [v; VErr (Some (noloc, fam))] s) | None => k (RPanic s) end.
Proof. reflexivity. Qed.

Lemma exec_set_err n fam s k :
  EX (SSetErr n fam) s k =
  match EV s n, EV s fam with
  | Some (VNode p), Some (VFam f) =>
      match node_loc self p with Some l => k (RNormal (set_err (Some (l, f)) s)) | None => k (RPanic s) end
  | _, _ => k (RPanic s)
  end.
Proof. reflexivity. Qed.

Lemma exec_push e s k :
  EX (SPush e) s k = match EV s e with Some (VT t) => k (RNormal (set_cols (t :: g_cols s) s)) | _ => k (RPanic s) end.
Proof. reflexivity. Qed.

Lemma exec_pop s k :
  EX SPop s k = match g_cols s with _ :: r => k (RNormal (set_cols r s)) | [] => k (RPanic s) end.
Proof. reflexivity. Qed.

Lemma exec_set_field n f e s k :
  EX (SSetField n f e) s k =
  match EV s n, EV s e with
  | Some (VNode PSelf), Some (VB b) =>
      match set_flag (g_cur s) f b with Some cur => k (RNormal (set_cur cur s)) | None => k (RPanic s) end
  | _, _ => k (RPanic s)
  end.
Proof. reflexivity. Qed.

Lemma exec_set_ints n t s k :
  EX (SSetInts n t) s k =
  match EV s n, EV s t with
  | Some (VNode p), Some (VT ty) =>
      match get_node (g_cur s) p with
      | Some x => k (RNormal (set_cur (set_node (g_cur s) p (sm_setints M x ty)) s))
      | None => k (RPanic s)
      end
  | _, _ => k (RPanic s)
  end.
Proof. reflexivity. Qed.

Lemma exec_bad src s k : EX (SBad src) s k = k (RPanic s).
Proof. reflexivity. Qed.

End Steps.

Lemma run_proc_S c M rec self procs d name args s k :
  run_proc c M rec self procs (S d) name args s k =
  match find_proc name procs with
  | Some p =>
      if Nat.eqb (count args) (p_params p) then
        exec_list c M rec self (run_proc c M rec self procs d) (p_body p) (set_env (bind_params O args) s)
          (fun o => match o with
                    | RReturn vs s' => k (RReturn vs (set_env (g_env s) s'))
                    | RNormal s' | RContinue s' | RPanic s' => k (RPanic (set_env (g_env s) s'))
                    end)
      else k (RPanic s)
  | None => k (RPanic s)
  end.
Proof. reflexivity. Qed.

Lemma range_loop_O body j s k : range_loop body O j s k = k (RNormal s).
Proof. reflexivity. Qed.

Lemma range_loop_S body n j s k :
  range_loop body (S n) j s k =
  body j s (fun o => match o with
                     | RNormal s' | RContinue s' => range_loop body n (S j) s' k
                     | _ => k o
                     end).
Proof. reflexivity. Qed.

(* Base/Num.v — Go numeric kinds, two's-complement wrap, conversions, arithmetic.
   Model of Go's numeric semantics on amd64 (int/uint are 64-bit).  No proofs here. *)
From Coq Require Import ZArith Bool List Floats Uint63.
Import ListNotations.
Open Scope Z_scope.

Inductive kind :=
| KUint | KUint8 | KUint16 | KUint32 | KUint64
| KInt | KInt8 | KInt16 | KInt32 | KInt64
| KF32 | KF64.

Definition all_kinds : list kind :=
  [KUint; KUint8; KUint16; KUint32; KUint64; KInt; KInt8; KInt16; KInt32; KInt64; KF32; KF64].

Definition kind_idx (k : kind) : Z :=
  match k with
  | KUint => 0 | KUint8 => 1 | KUint16 => 2 | KUint32 => 3 | KUint64 => 4
  | KInt => 5 | KInt8 => 6 | KInt16 => 7 | KInt32 => 8 | KInt64 => 9
  | KF32 => 10 | KF64 => 11
  end.
Definition kind_eqb (a b : kind) : bool := Z.eqb (kind_idx a) (kind_idx b).

Definition is_float (k : kind) : bool := match k with KF32 | KF64 => true | _ => false end.
Definition is_signed (k : kind) : bool :=
  match k with KInt | KInt8 | KInt16 | KInt32 | KInt64 => true | _ => false end.
Definition is_intkind (k : kind) : bool := negb (is_float k).

Definition width (k : kind) : Z :=
  match k with
  | KUint8 | KInt8 => 8 | KUint16 | KInt16 => 16 | KUint32 | KInt32 | KF32 => 32
  | _ => 64
  end.

(* The promotion rank of the PROPERTY (reference; never derived from the code):
   unsigned kinds by width, then signed kinds by width, then float32, float64.
   uint ~ uint64 and int ~ int64 tie on width. *)
Definition ref_rank (k : kind) : Z :=
  match k with
  | KUint8 => 1 | KUint16 => 2 | KUint32 => 3 | KUint | KUint64 => 4
  | KInt8 => 5 | KInt16 => 6 | KInt32 => 7 | KInt | KInt64 => 8
  | KF32 => 9 | KF64 => 10
  end.

Definition min_of (k : kind) : Z := if is_signed k then - 2 ^ (width k - 1) else 0.
Definition max_of (k : kind) : Z := if is_signed k then 2 ^ (width k - 1) - 1 else 2 ^ (width k) - 1.
Definition in_range (k : kind) (z : Z) : bool := (min_of k <=? z) && (z <=? max_of k).

(* two's complement wrap-around into kind k *)
Definition wrap (k : kind) (z : Z) : Z :=
  if is_signed k then (z + 2 ^ (width k - 1)) mod 2 ^ (width k) - 2 ^ (width k - 1)
  else z mod 2 ^ (width k).

(* ---------------- floats ---------------- *)
Definition fshift : Z := 2101.   (* PrimFloat.shift *)

Definition f_is_nan (f : float) : bool := negb (PrimFloat.eqb f f).
Definition f_is_inf (f : float) : bool := PrimFloat.eqb (PrimFloat.abs f) infinity.
Definition f_is_zero (f : float) : bool := PrimFloat.eqb f 0%float.
Definition f_sign (f : float) : bool :=   (* true = negative (incl. -0) *)
  match PrimFloat.classify f with
  | NNormal | NSubn | NZero | NInf => true | _ => false end.

(* bit-level equality: all NaNs identified, +0 <> -0 *)
Definition f_same (a b : float) : bool :=
  if f_is_nan a then f_is_nan b
  else PrimFloat.eqb a b && Bool.eqb (f_sign a) (f_sign b).

(* |f| = M * 2^E with 2^52 <= M < 2^53 for finite non-zero f *)
Definition f_decomp (f : float) : Z * Z :=
  let '(m, e) := PrimFloat.frshiftexp (PrimFloat.abs f) in
  (Uint63.to_Z (PrimFloat.normfr_mantissa m), Uint63.to_Z e - fshift - 53).

Definition f_of_pos (q : Z) (e : Z) : float :=   (* q * 2^e, q < 2^63, exact when representable *)
  PrimFloat.ldshiftexp (PrimFloat.of_uint63 (Uint63.of_Z q)) (Uint63.of_Z (e + fshift)).

(* Z -> float64, round to nearest even (Go's float64(int) conversion) *)
Definition f_of_Z (z : Z) : float :=
  let a := Z.abs z in
  let r :=
    if a <? 2 ^ 63 then PrimFloat.of_uint63 (Uint63.of_Z a)
    else (* sticky-bit halving, as the Go compiler does for uint64 *)
      PrimFloat.mul (PrimFloat.of_uint63 (Uint63.of_Z (Z.lor (Z.shiftr a 1) (Z.land a 1)))) 2%float in
  if z <? 0 then PrimFloat.opp r else r.

(* truncation toward zero; None for NaN/Inf *)
Definition f_trunc (f : float) : option Z :=
  if f_is_nan f || f_is_inf f then None
  else if f_is_zero f then Some 0
  else let '(M, E) := f_decomp f in
       let a := if 0 <=? E then M * 2 ^ E else M / 2 ^ (- E) in
       Some (if f_sign f then - a else a).

(* round a binary64 value to the nearest binary32 value (ties to even), result kept as binary64 *)
Definition round32 (f : float) : float :=
  if f_is_nan f || f_is_inf f || f_is_zero f then f
  else
    let '(M, E) := f_decomp f in
    let ex := E + 52 in
    let sh := if -126 <=? ex then 29 else (-149 - E) in
    let q0 := Z.shiftr M sh in
    let r := M - Z.shiftl q0 sh in
    let half := Z.shiftl 1 (sh - 1) in
    let q := if (half <? r) || ((half =? r) && Z.odd q0) then q0 + 1 else q0 in
    let mag := f_of_pos q (E + sh) in
    let mag := if PrimFloat.leb 0x1p+128%float mag then infinity else mag in
    if f_sign f then PrimFloat.opp mag else mag.

Definition fround (k : kind) (f : float) : float := match k with KF32 => round32 f | _ => f end.

(* ---------------- numbers ---------------- *)
Inductive num :=
| NInt (k : kind) (z : Z)      (* k an integer kind, z within its range *)
| NFlt (k : kind) (f : float). (* k = KF32 (f exactly a binary32 value) or KF64 *)

Definition num_kind (n : num) : kind := match n with NInt k _ | NFlt k _ => k end.

Definition num_wf (n : num) : bool :=
  match n with
  | NInt k z => is_intkind k && in_range k z
  | NFlt k f => is_float k && f_same (fround k f) f
  end.

(* Go conversion T(x).  None = implementation-defined in Go (float out of the integer range / NaN). *)
Definition convert (k : kind) (n : num) : option num :=
  match n with
  | NInt _ z =>
      if is_float k then Some (NFlt k (fround k (f_of_Z z))) else Some (NInt k (wrap k z))
  | NFlt _ f =>
      if is_float k then Some (NFlt k (fround k f))
      else match f_trunc f with
           | Some z => if in_range k z then Some (NInt k z) else None
           | None => None
           end
  end.

Definition num_same (a b : num) : bool :=
  match a, b with
  | NInt k z, NInt k' z' => kind_eqb k k' && (z =? z')
  | NFlt k f, NFlt k' f' => kind_eqb k k' && f_same f f'
  | _, _ => false
  end.

(* binary operators of the generated helpers *)
Inductive gop := OEq | OLt | OGt | OLe | OGe | OAdd | OSub | OMul | ODiv | ORem | OBad.

Definition gop_idx (o : gop) : Z :=
  match o with OEq => 0 | OLt => 1 | OGt => 2 | OLe => 3 | OGe => 4 | OAdd => 5 | OSub => 6
             | OMul => 7 | ODiv => 8 | ORem => 9 | OBad => 10 end.
Definition gop_eqb (a b : gop) : bool := Z.eqb (gop_idx a) (gop_idx b).

Inductive nres :=
| NRNum (n : num) | NRBool (b : bool)
| NRDivZero          (* Go run-time panic: integer divide by zero *)
| NRUnspec           (* conversion result not defined by the Go specification *)
| NRInvalid.         (* operands of different kinds / operator not defined: not Go *)

(* Go's `a op b` for operands of one and the same kind *)
Definition go_op (o : gop) (a b : num) : nres :=
  match a, b with
  | NInt k x, NInt k' y =>
      if negb (kind_eqb k k') then NRInvalid else
      match o with
      | OEq => NRBool (x =? y) | OLt => NRBool (x <? y) | OGt => NRBool (y <? x)
      | OLe => NRBool (x <=? y) | OGe => NRBool (y <=? x)
      | OAdd => NRNum (NInt k (wrap k (x + y)))
      | OSub => NRNum (NInt k (wrap k (x - y)))
      | OMul => NRNum (NInt k (wrap k (x * y)))
      | ODiv => if y =? 0 then NRDivZero else NRNum (NInt k (wrap k (Z.quot x y)))
      | ORem => if y =? 0 then NRDivZero else NRNum (NInt k (wrap k (Z.rem x y)))
      | OBad => NRInvalid
      end
  | NFlt k x, NFlt k' y =>
      if negb (kind_eqb k k') then NRInvalid else
      match o with
      | OEq => NRBool (PrimFloat.eqb x y) | OLt => NRBool (PrimFloat.ltb x y)
      | OGt => NRBool (PrimFloat.ltb y x) | OLe => NRBool (PrimFloat.leb x y)
      | OGe => NRBool (PrimFloat.leb y x)
      | OAdd => NRNum (NFlt k (fround k (PrimFloat.add x y)))
      | OSub => NRNum (NFlt k (fround k (PrimFloat.sub x y)))
      | OMul => NRNum (NFlt k (fround k (PrimFloat.mul x y)))
      | ODiv => NRNum (NFlt k (fround k (PrimFloat.div x y)))
      | ORem | OBad => NRInvalid
      end
  | _, _ => NRInvalid
  end.

Definition nres_same (a b : nres) : bool :=
  match a, b with
  | NRNum x, NRNum y => num_same x y
  | NRBool x, NRBool y => Bool.eqb x y
  | NRDivZero, NRDivZero | NRUnspec, NRUnspec | NRInvalid, NRInvalid => true
  | _, _ => false
  end.

(* ---------------- the ten generated helpers ---------------- *)
Inductive helper :=
| HEqual | HLess | HMore | HLessOrEqual | HMoreOrEqual
| HAdd | HSubtract | HMultiply | HDivide | HModulo.

Definition all_helpers : list helper :=
  [HEqual; HLess; HMore; HLessOrEqual; HMoreOrEqual; HAdd; HSubtract; HMultiply; HDivide; HModulo].

Definition helper_op (h : helper) : gop :=
  match h with
  | HEqual => OEq | HLess => OLt | HMore => OGt | HLessOrEqual => OLe | HMoreOrEqual => OGe
  | HAdd => OAdd | HSubtract => OSub | HMultiply => OMul | HDivide => ODiv | HModulo => ORem
  end.

(* one case of a helper: conversion applied to x, to y (None = used as is), Go operator *)
Definition entry := (option kind * option kind * gop)%type.
Definition table := helper -> kind -> kind -> option entry.

Definition all_triples : list (helper * kind * kind) :=
  flat_map (fun h => flat_map (fun a => map (fun b => (h, a, b)) all_kinds) all_kinds) all_helpers.

Definition conv_opt (c : option kind) (n : num) : option num :=
  match c with None => Some n | Some k => convert k n end.

(* what a helper computes on two numbers according to a case table; None = no case (fall through) *)
Definition helper_num (tbl : table) (h : helper) (x y : num) : option nres :=
  match tbl h (num_kind x) (num_kind y) with
  | None => None
  | Some (cx, cy, o) =>
      match conv_opt cx x, conv_opt cy y with
      | Some x', Some y' => Some (go_op o x' y')
      | _, _ => Some NRUnspec
      end
  end.

(* ---------------- the reference promotion rule ---------------- *)
Definition higher (a b : kind) : kind := if ref_rank a <? ref_rank b then b else a.

(* the rule applied to values: convert the lower-ranked operand to the higher-ranked kind, then Go's op *)
Definition rule_num (h : helper) (x y : num) : option nres :=
  let kx := num_kind x in let ky := num_kind y in
  match h with
  | HModulo => if is_float kx || is_float ky then None else
      let K := higher kx ky in
      match convert K x, convert K y with
      | Some x', Some y' => Some (go_op ORem x' y') | _, _ => Some NRUnspec end
  | _ =>
      let K := higher kx ky in
      match convert K x, convert K y with
      | Some x', Some y' => Some (go_op (helper_op h) x' y') | _, _ => Some NRUnspec end
  end.

(* does a table entry obey the rule?  The lower-ranked operand (and only it) is converted, to the
   kind of the other; on a rank tie between distinct kinds (uint/uint64, int/int64) either
   direction is accepted. *)
Definition conv_target (k : kind) (c : option kind) : kind := match c with None => k | Some t => t end.

Definition entry_ok (h : helper) (kx ky : kind) (e : entry) : bool :=
  let '(cx, cy, o) := e in
  let tx := conv_target kx cx in let ty := conv_target ky cy in
  gop_eqb o (helper_op h) && kind_eqb tx ty &&
  (if kind_eqb kx ky then kind_eqb tx kx
   else if ref_rank kx <? ref_rank ky then kind_eqb tx ky
   else if ref_rank ky <? ref_rank kx then kind_eqb tx kx
   else kind_eqb tx kx || kind_eqb tx ky) &&
  (match cx with Some t => negb (kind_eqb t kx) | None => true end) &&
  (match cy with Some t => negb (kind_eqb t ky) | None => true end).

Definition has_case (h : helper) (kx ky : kind) : bool :=
  match h with HModulo => negb (is_float kx || is_float ky) | _ => true end.

Definition triple_ok (tbl : table) (t : helper * kind * kind) : bool :=
  let '(h, kx, ky) := t in
  match tbl h kx ky with
  | Some e => has_case h kx ky && entry_ok h kx ky e
  | None => negb (has_case h kx ky)
  end.

(* result kind of an arithmetic helper according to the table *)
Definition entry_kind (kx : kind) (e : entry) : kind := let '(cx, _, _) := e in conv_target kx cx.

(* ---------------- unary minus, casts, exponent operands ---------------- *)
Definition go_neg (n : num) : num :=
  match n with
  | NInt k z => NInt k (wrap k (- z))
  | NFlt k f => NFlt k (PrimFloat.opp f)
  end.

(* Base/Value.v — Go types (the reflect fragment the library looks at), Go values with their
   dynamic types, and the outcome monad.  No proofs here. *)
From Coq Require Import ZArith Bool List String Floats.
Require Import X.Base.Num.
Import ListNotations.
Open Scope Z_scope.

(* ---------------- types ---------------- *)
Inductive ty :=
| TNilT                                   (* reflect.TypeOf(nil): no type at all *)
| TBool
| TNum (k : kind)
| TString
| TIface                                  (* interface{} *)
| TSlice (e : ty)
| TMap (k e : ty)
| TStruct (name : string)                 (* a declared struct type, looked up in a type environment *)
| TPtr (e : ty)
| TFunc (ins : list ty) (variadic : bool) (outs : list ty)
| TNamed (name : string) (under : ty)     (* declared non-struct type, e.g. `type MyInt int` *)
| TOpaque (name : string).                (* anything else (regexp, chan, ...) *)

Fixpoint ty_eqb (a b : ty) {struct a} : bool :=
  let fix list_eqb (l1 l2 : list ty) {struct l1} : bool :=
    match l1, l2 with
    | [], [] => true
    | x :: r1, y :: r2 => ty_eqb x y && list_eqb r1 r2
    | _, _ => false
    end in
  match a, b with
  | TNilT, TNilT | TBool, TBool | TString, TString | TIface, TIface => true
  | TNum k, TNum k' => kind_eqb k k'
  | TSlice e, TSlice e' => ty_eqb e e'
  | TMap k e, TMap k' e' => ty_eqb k k' && ty_eqb e e'
  | TStruct n, TStruct n' => String.eqb n n'
  | TPtr e, TPtr e' => ty_eqb e e'
  | TFunc i v o, TFunc i' v' o' => list_eqb i i' && Bool.eqb v v' && list_eqb o o'
  | TNamed n u, TNamed n' u' => String.eqb n n' && ty_eqb u u'
  | TOpaque n, TOpaque n' => String.eqb n n'
  | _, _ => false
  end.

(* reflect.Kind, as far as the library distinguishes kinds *)
Inductive rkind :=
| RKInvalid | RKBool | RKNum (k : kind) | RKString | RKInterface | RKSlice | RKMap | RKStruct
| RKPtr | RKFunc | RKOther.

Fixpoint kind_of_ty (t : ty) : rkind :=
  match t with
  | TNilT => RKInvalid | TBool => RKBool | TNum k => RKNum k | TString => RKString
  | TIface => RKInterface | TSlice _ => RKSlice | TMap _ _ => RKMap | TStruct _ => RKStruct
  | TPtr _ => RKPtr | TFunc _ _ _ => RKFunc | TNamed _ u => kind_of_ty u | TOpaque _ => RKOther
  end.

Definition rkind_eqb (a b : rkind) : bool :=
  match a, b with
  | RKInvalid, RKInvalid | RKBool, RKBool | RKString, RKString | RKInterface, RKInterface
  | RKSlice, RKSlice | RKMap, RKMap | RKStruct, RKStruct | RKPtr, RKPtr | RKFunc, RKFunc
  | RKOther, RKOther => true
  | RKNum k, RKNum k' => kind_eqb k k'
  | _, _ => false
  end.

(* ---------------- values ---------------- *)
(* A Go value as held in an interface{}: dynamic type + contents.
   Maps are association lists in ascending key order (canonical form chosen by the serialiser). *)
Inductive value :=
| VNil                                              (* nil interface *)
| VBool (b : bool)
| VNum (n : num)
| VStr (s : string)
| VArr (elem : ty) (l : list value)                 (* non-nil slice of element type elem *)
| VNilArr (elem : ty)                               (* nil slice *)
| VMap (kt et : ty) (m : list (value * value))      (* map[kt]et *)
| VStruct (name : string) (ptr : bool) (fields : list (string * value))
                                                    (* struct value, or non-nil pointer to one (ptr = true) *)
| VNilPtr (t : ty)                                  (* typed nil pointer / nil slice is VArr _ [] / nil map VNilMap *)
| VNilMap (kt et : ty)
| VFunc (name : string) (t : ty)                    (* a function value of the environment, by name *)
| VNamed (name : string) (v : value)                (* value of a declared non-struct type *)
| VOpaque (desc : string).

(* ---------------- outcomes ---------------- *)
(* why a run-time operation fails; close to the families of Go panic messages *)
Inductive err :=
| EInvalidOp        (* "invalid operation: ..." — helper fall-through, negate, toInt, len *)
| EIfaceConv        (* "interface conversion: ..." — failed type assertion *)
| ECannotFetch      (* "cannot fetch %v from %T", "cannot get ... from", "cannot slice" *)
| EIndexRange       (* "index out of range", "slice bounds out of range" *)
| EDivZero          (* "integer divide by zero" *)
| ENilDeref         (* nil pointer dereference / nil map etc. *)
| EReflect          (* a reflect panic: wrong key type, Call with wrong argument type or count, ... *)
| ERegexp           (* invalid pattern *)
| EBudget           (* "memory budget exceeded" *)
| EUser             (* the environment function panicked *)
| ENotIn            (* operator "in" not defined / cannot use as index/field name *)
| EMachine          (* stack underflow, no scope, unknown opcode, bad constant: malformed program *)
| EUnspec           (* behaviour not fixed by the Go specification (float->int out of range) *)
| EOther.

Definition err_idx (e : err) : Z :=
  match e with
  | EInvalidOp => 0 | EIfaceConv => 1 | ECannotFetch => 2 | EIndexRange => 3 | EDivZero => 4
  | ENilDeref => 5 | EReflect => 6 | ERegexp => 7 | EBudget => 8 | EUser => 9 | ENotIn => 10
  | EMachine => 11 | EUnspec => 12 | EOther => 13
  end.
Definition err_eqb (a b : err) : bool := Z.eqb (err_idx a) (err_idx b).

(* type reasons (operand of the wrong type, missing name, wrong argument type) vs value reasons *)
Definition is_type_err (e : err) : bool :=
  match e with EInvalidOp | EIfaceConv | ECannotFetch | EReflect | ENotIn => true | _ => false end.

Inductive outcome (A : Type) := Ok (a : A) | Fail (e : err).
Arguments Ok {A}. Arguments Fail {A}.

Definition bind {A B} (o : outcome A) (f : A -> outcome B) : outcome B :=
  match o with Ok a => f a | Fail e => Fail e end.

Declare Scope out_scope.
Notation "'do' x <- o ; f" := (bind o (fun x => f)) (at level 200, x name, o at level 100, f at level 200) : out_scope.
Notation "'do' ' p <- o ; f" := (bind o (fun x => match x with p => f end))
  (at level 200, p pattern, o at level 100, f at level 200) : out_scope.

(* source location: 1-based line, 0-based column; (0,0) = no location *)
Definition loc := (Z * Z)%type.
Definition noloc : loc := (0, 0).
Definition loc_eqb (a b : loc) : bool := (fst a =? fst b) && (snd a =? snd b).

(* Base/NumProofs.v — lemmas about the numeric model that do not depend on generated tables *)
From Coq Require Import ZArith Bool List Lia Floats.
Require Import X.Base.Num.
Import ListNotations.
Open Scope Z_scope.

Lemma kind_eqb_eq a b : kind_eqb a b = true <-> a = b.
Proof. split; [|intros ->; destruct b; reflexivity]. destruct a, b; cbv; congruence. Qed.

Lemma kind_eqb_refl a : kind_eqb a a = true.
Proof. apply kind_eqb_eq; reflexivity. Qed.

Lemma kind_eqb_neq a b : kind_eqb a b = false <-> a <> b.
Proof. split; intros H.
  - intros E. apply kind_eqb_eq in E. congruence.
  - destruct (kind_eqb a b) eqn:E; auto. apply kind_eqb_eq in E. contradiction.
Qed.

Lemma gop_eqb_eq a b : gop_eqb a b = true <-> a = b.
Proof. split; [|intros ->; destruct b; reflexivity]. destruct a, b; cbv; congruence. Qed.

(* "converting the lower-ranked operand": the operand whose kind already is K is used as it is *)
Definition conv_to (K : kind) (n : num) : option num :=
  if kind_eqb K (num_kind n) then Some n else convert K n.

Definition apply_rule (o : gop) (K : kind) (x y : num) : nres :=
  match conv_to K x, conv_to K y with
  | Some x', Some y' => go_op o x' y'
  | _, _ => NRUnspec
  end.

(* generic: an entry that obeys the rule computes the rule, whatever the values *)
Lemma entry_ok_sound h kx ky cx cy o :
  entry_ok h kx ky (cx, cy, o) = true ->
  let K := conv_target kx cx in
  (K = kx \/ K = ky) /\
  ref_rank K = Z.max (ref_rank kx) (ref_rank ky) /\
  o = helper_op h /\
  forall x y, num_kind x = kx -> num_kind y = ky ->
    match conv_opt cx x, conv_opt cy y with
    | Some x', Some y' => go_op o x' y' | _, _ => NRUnspec end = apply_rule (helper_op h) K x y.
Proof.
  unfold entry_ok. intros H.
  repeat (apply andb_prop in H; destruct H as [H ?]).
  match goal with G : gop_eqb _ _ = true |- _ => apply gop_eqb_eq in G; subst o end.
  match goal with G : kind_eqb (conv_target kx cx) (conv_target ky cy) = true |- _ =>
    apply kind_eqb_eq in G; rename G into Htt end.
  cbv zeta. set (K := conv_target kx cx) in *.
  assert (HK : (K = kx \/ K = ky) /\ ref_rank K = Z.max (ref_rank kx) (ref_rank ky)).
  { match goal with G : (if kind_eqb kx ky then _ else _) = true |- _ => rename G into Hc end.
    destruct (kind_eqb kx ky) eqn:Exy.
    - apply kind_eqb_eq in Exy; subst ky. apply kind_eqb_eq in Hc. rewrite Hc. split; [auto|lia].
    - destruct (ref_rank kx <? ref_rank ky) eqn:E1.
      + apply kind_eqb_eq in Hc. rewrite Hc. apply Z.ltb_lt in E1. split; [auto|lia].
      + destruct (ref_rank ky <? ref_rank kx) eqn:E2.
        * apply kind_eqb_eq in Hc. rewrite Hc. apply Z.ltb_lt in E2. split; [auto|lia].
        * apply Z.ltb_ge in E1. apply Z.ltb_ge in E2.
          apply orb_prop in Hc. destruct Hc as [Hc|Hc]; apply kind_eqb_eq in Hc; rewrite Hc;
            (split; [auto|lia]). }
  destruct HK as [HK1 HK2]. repeat split; auto.
  intros x y Hx Hy. unfold apply_rule, conv_to. rewrite Hx, Hy.
  assert (Ex : conv_opt cx x = if kind_eqb K kx then Some x else convert K x).
  { subst K. destruct cx as [t|]; cbn [conv_target conv_opt].
    - match goal with G : negb (kind_eqb t kx) = true |- _ => apply negb_true_iff in G; rewrite G end.
      reflexivity.
    - rewrite kind_eqb_refl. reflexivity. }
  assert (Ey : conv_opt cy y = if kind_eqb K ky then Some y else convert K y).
  { rewrite Htt. destruct cy as [t|]; cbn [conv_target conv_opt].
    - match goal with G : negb (kind_eqb t ky) = true |- _ => apply negb_true_iff in G; rewrite G end.
      reflexivity.
    - rewrite kind_eqb_refl. reflexivity. }
  rewrite Ex, Ey. reflexivity.
Qed.

(* value facts about the Go operators of the model *)
Lemma wrap_in_range k z : is_intkind k = true -> in_range k z = true -> wrap k z = z.
Proof.
  unfold in_range, wrap, min_of, max_of. intros Hk H. apply andb_prop in H. destruct H as [H1 H2].
  apply Z.leb_le in H1. apply Z.leb_le in H2.
  destruct k; cbn in *; try discriminate; try (rewrite Z.mod_small; lia).
Qed.

Lemma wrap_range k z : is_intkind k = true -> in_range k (wrap k z) = true.
Proof.
  unfold in_range, wrap, min_of, max_of. intros Hk.
  destruct k; cbn in *; try discriminate; apply andb_true_intro; split;
    try apply Z.leb_le;
    match goal with |- context[?a mod ?b] => pose proof (Z.mod_pos_bound a b ltac:(lia)) end; lia.
Qed.

(* widening between integer kinds of the same signedness never changes the value *)
Lemma widen_exact k1 k2 z :
  is_intkind k1 = true -> is_intkind k2 = true -> is_signed k1 = is_signed k2 ->
  width k1 <= width k2 -> in_range k1 z = true -> wrap k2 z = z.
Proof.
  intros H1 H2 Hs Hw Hr. apply wrap_in_range; auto.
  unfold in_range, min_of, max_of in *. apply andb_prop in Hr. destruct Hr as [Ha Hb].
  apply Z.leb_le in Ha. apply Z.leb_le in Hb.
  destruct k1, k2; cbn in *; try discriminate; try lia.
  all: try (apply andb_true_intro; split; apply Z.leb_le; lia).
Qed.

Lemma int_div_truncates k x y : y <> 0 ->
  go_op ODiv (NInt k x) (NInt k y) = NRNum (NInt k (wrap k (Z.quot x y))).
Proof. intros H. cbn. rewrite kind_eqb_refl. cbn. destruct (Z.eqb_spec y 0); [contradiction|reflexivity]. Qed.

Lemma int_div_zero k x : go_op ODiv (NInt k x) (NInt k 0) = NRDivZero.
Proof. cbn. rewrite kind_eqb_refl. reflexivity. Qed.

Lemma int_rem_zero k x : go_op ORem (NInt k x) (NInt k 0) = NRDivZero.
Proof. cbn. rewrite kind_eqb_refl. reflexivity. Qed.

Lemma quot_toward_zero x y : y <> 0 -> Z.abs (Z.quot x y * y) <= Z.abs x.
Proof.
  intros Hy. destruct (Z.le_ge_cases 0 x) as [Hx|Hx].
  - pose proof (Z.mul_quot_le x y Hx Hy). lia.
  - pose proof (Z.mul_quot_ge x y Hx Hy). lia.
Qed.

#!/usr/bin/env python3
"""tools/seed_eval.py <seed-dir> <property-id> [--tier quick] [--props C01,C05] [--base /tmp/verif-base] [--skip-confirm]

Evaluates one seeded change (a directory holding patch.diff + demo_test.go):
  1. CONFIRM it in a throw-away git worktree of /repo: the patch applies, the library builds, the
     unedited suite passes, the demonstration fails with the patch and passes without it.
  2. RUN the registered check(s) of the property against an isolated copy of /repo with the patch
     applied (VERIF_REPO), using an isolated copy of the verification tree (so /repo, /verif/coq/gen and
     the evidence files are never touched), and report the verdict lines.
Writes <seed-dir>/eval.json and prints a one-line summary.  Everything it creates under /tmp is removed.
"""
import json
import os
import shutil
import subprocess
import sys
import time

ENV = dict(os.environ, GOFLAGS="-mod=mod", GOPROXY="off", GOSUMDB="off", GOTOOLCHAIN="local")


def sh(cmd, cwd=None, timeout=3600, env=None):
    p = subprocess.run(cmd, cwd=cwd, shell=True, env=env or ENV, stdout=subprocess.PIPE, stderr=subprocess.STDOUT, timeout=timeout)
    return p.returncode, p.stdout.decode("utf-8", "replace")


def confirm(seed, tag):
    wt = "/tmp/seedwt-%s-%d" % (tag, os.getpid())
    res = {}
    sh("git -C /tmp/repo-frozen worktree remove --force %s" % wt)
    rc, out = sh("git -C /tmp/repo-frozen worktree add --detach %s HEAD -q" % wt)
    if rc != 0:
        return {"error": "worktree: " + out}
    try:
        demo = os.path.join(wt, "seed_demo_x_test.go")
        shutil.copy(os.path.join(seed, "demo_test.go"), demo)
        race = "-race " if "-race" in open(os.path.join(seed, "notes.md")).read() else ""
        cgo = dict(ENV, CGO_ENABLED="1") if race else ENV
        rc, out = sh("go test %s-vet=off -count=1 -run 'TestSeedDemo' ." % race, cwd=wt, env=cgo)
        res["demo_without_patch_passes"] = rc == 0
        os.remove(demo)
        rc, out = sh("git apply %s" % os.path.join(seed, "patch.diff"), cwd=wt)
        res["applies"] = rc == 0
        rc, out = sh("go build ./...", cwd=wt)
        res["builds"] = rc == 0
        rc, out = sh("go test -vet=off -count=1 ./...", cwd=wt)
        res["suite_passes_with_patch"] = rc == 0
        if rc != 0:
            res["suite_out"] = out[-1500:]
        shutil.copy(os.path.join(seed, "demo_test.go"), demo)
        rc, out = sh("go test %s-vet=off -count=1 -run 'TestSeedDemo' ." % race, cwd=wt, env=cgo)
        res["demo_with_patch_fails"] = rc != 0
        res["demo_fail_excerpt"] = "\n".join([l for l in out.split("\n") if l.strip()][:12])[:1500]
        rc, out = sh("git diff --stat", cwd=wt)
        res["touches"] = out.strip()
    finally:
        sh("git -C /tmp/repo-frozen worktree remove --force %s" % wt)
        shutil.rmtree(wt, ignore_errors=True)
    res["confirmed"] = all(res.get(k) for k in ("demo_without_patch_passes", "applies", "builds", "suite_passes_with_patch", "demo_with_patch_fails"))
    return res


def run_check(seed, pid, tier, base, tag):
    d = "/tmp/seedrun-%s-%s-%d" % (tag, pid, os.getpid())
    shutil.rmtree(d, ignore_errors=True)
    os.makedirs(d)
    res = {"property": pid, "tier": tier}
    try:
        sh("rsync -a --exclude .git --exclude work --exclude replays --exclude evidence %s/ %s/verif/" % (base, d))
        sh("rsync -a /tmp/repo-frozen/ %s/repo/" % d)
        os.makedirs(d + "/verif/evidence", exist_ok=True)
        rc, out = sh("git apply %s" % os.path.join(seed, "patch.diff"), cwd=d + "/repo")
        if rc != 0:
            res["error"] = "apply: " + out
            return res
        t0 = time.time()
        rc, out = sh("python3 %s/verif/tools/check.py %s %s" % (d, pid, tier), env=dict(ENV, VERIF_REPO=d + "/repo"), timeout=7200)
        res["exit"] = rc
        res["seconds"] = round(time.time() - t0)
        lines = [l for l in out.split("\n") if l.startswith("VIOLATION") or l.startswith("KNOWN-FINDING")]
        res["violations"] = [l[:300] for l in lines if l.startswith("VIOLATION")]
        res["known_findings"] = len([l for l in lines if l.startswith("KNOWN-FINDING")])
        res["detail"] = [l[:400] for l in out.split("\n") if "broken obligation" in l or l.startswith("correspondence:") or "mismatch" in l.lower()][:12]
        reps = []
        for l in res["violations"][:3]:
            for w in l.split():
                if w.startswith("replay="):
                    try:
                        reps.append(open(w[7:]).read()[:1500])
                    except OSError:
                        pass
        res["replays"] = reps
        res["detected"] = rc != 0 and bool(res["violations"])
        res["tail"] = out[-800:] if not res["detected"] else ""
    finally:
        shutil.rmtree(d, ignore_errors=True)
    return res


def main():
    a = sys.argv[1:]
    seed, pid = a[0], a[1]
    tier, base, props, skip = "quick", "/tmp/verif-base", None, False
    i = 2
    while i < len(a):
        if a[i] == "--tier":
            tier = a[i + 1]; i += 2
        elif a[i] == "--base":
            base = a[i + 1]; i += 2
        elif a[i] == "--props":
            props = a[i + 1].split(","); i += 2
        elif a[i] == "--skip-confirm":
            skip = True; i += 1
        else:
            i += 1
    tag = os.path.basename(os.path.dirname(seed.rstrip("/"))).replace(".out", "") + os.path.basename(seed.rstrip("/"))
    outp = os.path.join(seed, "eval.json")
    ev = json.load(open(outp)) if os.path.exists(outp) else {}
    if not skip or "confirm" not in ev:
        ev["confirm"] = confirm(seed, tag)
    ev.setdefault("checks", {})
    for p in (props or [pid]):
        ev["checks"][p + ":" + tier] = run_check(seed, p, tier, base, tag)
    json.dump(ev, open(outp, "w"), indent=1)
    print(tag, "confirmed=%s" % ev["confirm"].get("confirmed"),
          " ".join("%s=%s" % (k, "DETECTED" if v.get("detected") else "missed(exit=%s)" % v.get("exit")) for k, v in ev["checks"].items()))


if __name__ == "__main__":
    main()

#!/usr/bin/env python3
"""tools/seed_summary.py <root> : one line per evaluated seed under <root>/Cxx.out/{A,B}."""
import json, glob, os, sys, re
root = sys.argv[1]
for d in sorted(glob.glob(os.path.join(root, "C*.out", "[AB]"))):
    tag = os.path.basename(os.path.dirname(d))[:3] + "-" + os.path.basename(d)
    f = os.path.join(d, "eval.json")
    if not os.path.exists(f):
        print(tag, "pending"); continue
    e = json.load(open(f))
    c = e.get("confirm", {})
    line = [tag, "confirmed" if c.get("confirmed") else "NOT-CONFIRMED %s" % {k: v for k, v in c.items() if isinstance(v, bool) and not v}]
    for k, v in e.get("checks", {}).items():
        viol = v.get("violations", [])
        nfi = [x for x in viol if "no-failing-input-found" in x]
        keys = set()
        for r in v.get("replays", []):
            m = re.search(r'"key": "([^"]+)"', r)
            if m: keys.add(m.group(1))
        st = "MISSED" if not v.get("detected") else ("no-input" if len(nfi) == len(viol) else "INPUT")
        line.append("%s=%s %ss %s" % (k, st, v.get("seconds"), ",".join(sorted(keys))))
        if st != "INPUT":
            line.append(" | ".join(x.strip()[:110] for x in v.get("detail", [])[1:3]))
    print("  ".join(line))

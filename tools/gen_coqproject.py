#!/usr/bin/env python3
"""Concatenates coq/_CoqProject.d/*.list (sorted by file name) into coq/_CoqProject."""
import glob, os
root = os.path.join(os.path.dirname(os.path.abspath(__file__)), "..", "coq")
hdr = "-Q . X\n-arg -w -arg -notation-overridden,-deprecated-hint-without-locality,-deprecated-instance-without-locality\n"
seen, out = set(), []
for f in sorted(glob.glob(os.path.join(root, "_CoqProject.d", "*.list"))):
    for line in open(f):
        line = line.strip()
        if line and not line.startswith("#") and line not in seen and (os.path.exists(os.path.join(root, line)) or line.startswith("gen/")):
            seen.add(line)
            out.append(line)
txt = hdr + "\n".join(out) + "\n"
p = os.path.join(root, "_CoqProject")
if not os.path.exists(p) or open(p).read() != txt:
    open(p, "w").write(txt)
print("_CoqProject:", len(out), "files")

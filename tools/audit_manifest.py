#!/usr/bin/env python3
"""tools/audit_manifest.py: every theorem name (Cxx_...) the MANIFEST texts mention must be stated in coq/Props/<ID>.v."""
import json, re, sys, os
V = os.path.dirname(os.path.dirname(os.path.abspath(__file__)))
m = json.load(open(os.path.join(V, "MANIFEST.json")))
bad = 0
def walk(o, out):
    if isinstance(o, str):
        out.append(o)
    elif isinstance(o, dict):
        for v in o.values():
            walk(v, out)
    elif isinstance(o, list):
        for v in o:
            walk(v, out)
texts = []
walk(m, texts)
names = set()
for t in texts:
    names.update(re.findall(r"\bC\d\d_[A-Za-z0-9_]+", t))
for n in sorted(names):
    pid = n[:3]
    src = open(os.path.join(V, "coq", "Props", pid + ".v")).read()
    if not re.search(r"\b(Theorem|Lemma|Example|Definition|Corollary)\s+" + re.escape(n) + r"\b", src):
        print("MISSING", n)
        bad += 1
print("audited %d names, %d missing" % (len(names), bad))
sys.exit(1 if bad else 0)

#!/bin/sh
# tools/mkscratch.sh <dir>: isolated copy of /verif and /repo for mutation experiments.
#   Mutate <dir>/repo (never /repo), then run
#     VERIF_REPO=<dir>/repo python3 <dir>/verif/tools/check.py <ID> quick
#   Re-run this script to refresh the copy; remove <dir> when done.
set -e
d="$1"; [ -n "$d" ] || { echo "usage: mkscratch.sh <dir>"; exit 2; }
mkdir -p "$d/verif" "$d/repo"
rsync -a --delete --exclude .git --exclude work --exclude replays --exclude evidence /verif/ "$d/verif/"
rsync -a --delete /repo/ "$d/repo/"
mkdir -p "$d/verif/evidence"
echo "scratch ready: VERIF_REPO=$d/repo python3 $d/verif/tools/check.py <ID> quick"

#!/bin/bash
# tools/try_harness.sh <patch.diff|-> <harness-cmd> [seed] : ORACLE-ONLY fast feedback. Builds /verif/harness against a scratch copy of
# /tmp/repo-frozen (or /repo) with the patch applied ("-" = unchanged tree), runs one harness command (quick tier), prints the
# failure keys of the report.  No Coq.  Everything under /tmp/tryh-$$ is removed.
patch=$1; cmd=$2; seed=${3:-20260923}
export GOFLAGS=-mod=mod GOPROXY=off GOSUMDB=off GOTOOLCHAIN=local
d=/tmp/tryh-$$; mkdir -p $d/out
src=/tmp/repo-frozen; [ -d $src ] || src=/repo
rsync -a --exclude .git $src/ $d/repo/
[ "$patch" = "-" ] || ( cd $d/repo && git apply --unsafe-paths -p1 --directory=. "$patch" 2>/dev/null || patch -p1 -s < "$patch" ) || { echo "patch does not apply"; rm -rf $d; exit 2; }
rsync -a /verif/harness/ $d/harness/
sed -i "s#=> /repo#=> $d/repo#" $d/harness/go.mod
cp $d/repo/go.sum $d/harness/
( cd $d/harness && mkdir -p $d/bin && go build -tags verif -o $d/bin/harness . ) || { echo "harness does not build"; rm -rf $d; exit 2; }
( cd $d/out && timeout 1200 $d/bin/harness $cmd -out $d/out -seed $seed -tier quick > $d/out/stdout.txt 2>&1 )
python3 - $d/out/report.json <<'P'
import json,sys,collections
try: r=json.load(open(sys.argv[1]))
except Exception as e: print("no report:", e); print(open(sys.argv[1].replace("report.json","stdout.txt")).read()[-1500:]); sys.exit()
c=collections.Counter(x['key'] for x in (r.get('failures') or []))
print("evaluations", r.get('evaluations'), dict(c))
seen=set()
for x in (r.get('failures') or []):
    if x['key'] not in seen:
        seen.add(x['key']); print("  ", x['key'], json.dumps(x.get('input'))[:200], "| want", str(x.get('want'))[:80], "| got", str(x.get('got'))[:100])
P
rm -rf $d

#!/usr/bin/env python3
"""Driver behind every quick_cmd / thorough_cmd of /verif/MANIFEST.json.

  tools/check.py <ID> quick|thorough      decide property <ID> on /repo's current working tree
  tools/check.py --setup                  build everything once after a fresh restore
  tools/check.py <ID> --replay <file>     show / re-run a recorded violation

One run = (1) regenerate coq/gen/*.v from /repo with the translator and re-check the property's
proof cone with coqc (the theorems are re-checked against what the code says now);
(2) build the Go harness from /repo (tag verif), run the real implementation on generated inputs,
judge every case against the property (implementation-level oracle), and write the observed
behaviour as Coq case files; (3) evaluate the Coq model on the same inputs (vm_compute) and
collect disagreements; (4) verdict + evidence/<ID>.json.
"""
import fcntl
import hashlib
import json
import os
import re
import subprocess
import sys
import time
from concurrent.futures import ThreadPoolExecutor

VERIF = os.path.dirname(os.path.dirname(os.path.abspath(__file__)))
REPO = os.environ.get("VERIF_REPO", "/repo")
COQ = os.path.join(VERIF, "coq")
BIN = os.path.join(VERIF, "bin")
WORK = os.path.join(VERIF, "work")

ENV = dict(os.environ)
ENV.update({"GOFLAGS": "-mod=mod", "GOPROXY": "off", "GOSUMDB": "off", "GOTOOLCHAIN": "local",
            "CGO_ENABLED": ENV.get("CGO_ENABLED", "0")})

sys.path.insert(0, os.path.join(VERIF, "tools"))
from props import PROPS, TRUSTED_COMMON  # noqa: E402

ALLOWED_AXIOM_PREFIXES = ("PrimFloat.", "PrimInt63.", "Uint63.", "FloatAxioms.", "Sint63.")
# axioms declared by the standard library itself that the development is allowed to rely on (named in DESIGN.md §5)
ALLOWED_AXIOMS = {"functional_extensionality_dep", "FunctionalExtensionality.functional_extensionality_dep",
                  "Eqdep.Eq_rect_eq.eq_rect_eq", "eq_rect_eq", "JMeq_eq", "JMeq.JMeq_eq",
                  "Classical_Prop.classic", "classic", "proof_irrelevance", "ProofIrrelevance.proof_irrelevance",
                  # real-number axioms of the standard library (Coq.Reals.ClassicalDedekindReals): in the loaded context of
                  # every file that imports Floats; coqchk -o lists the context, no theorem of Props/ depends on them
                  "sig_not_dec", "sig_forall_dec"}


def sh(cmd, cwd=None, timeout=None, env=None):
    p = subprocess.run(cmd, cwd=cwd, env=env or ENV, stdout=subprocess.PIPE, stderr=subprocess.STDOUT,
                       timeout=timeout, shell=isinstance(cmd, str))
    return p.returncode, p.stdout.decode("utf-8", "replace")


class Lock:
    def __init__(self, name):
        os.makedirs(WORK, exist_ok=True)
        self.f = open(os.path.join(WORK, name + ".lock"), "w")

    def __enter__(self):
        fcntl.flock(self.f, fcntl.LOCK_EX)

    def __exit__(self, *a):
        fcntl.flock(self.f, fcntl.LOCK_UN)


# ----------------------------------------------------------------------------- building
def build_translator():
    os.makedirs(BIN, exist_ok=True)
    rc, out = sh(["go", "build", "-o", os.path.join(BIN, "translator"), "."], cwd=os.path.join(VERIF, "translator"), timeout=600)
    if rc != 0:
        raise SystemExit("translator build failed:\n" + out)


def regenerate():
    tb = os.path.join(BIN, "translator")
    tdir = os.path.join(VERIF, "translator")
    srcs = [os.path.join(tdir, f) for f in os.listdir(tdir) if f.endswith(".go")]
    if not os.path.exists(tb) or any(os.path.getmtime(f) > os.path.getmtime(tb) for f in srcs):
        build_translator()
    rc, out = sh([os.path.join(BIN, "translator"), "-repo", REPO, "-out", os.path.join(COQ, "gen")], timeout=120)
    return rc, out


def ensure_makefile():
    sh([sys.executable, os.path.join(VERIF, "tools", "gen_coqproject.py")], timeout=60)
    mk = os.path.join(COQ, "Makefile")
    cp = os.path.join(COQ, "_CoqProject")
    if not os.path.exists(mk) or os.path.getmtime(mk) < os.path.getmtime(cp):
        rc, out = sh(["coq_makefile", "-f", "_CoqProject", "-o", "Makefile"], cwd=COQ, timeout=120)
        if rc != 0:
            raise SystemExit("coq_makefile failed:\n" + out)


def coq_make(targets, timeout=1500):
    ensure_makefile()
    rc, out = sh(["timeout", str(timeout), "make", "-j16", "-k"] + targets, cwd=COQ, timeout=timeout + 30)
    return rc, out


ERR_RE = re.compile(r'File "\./([^"]+)", line (\d+), characters')


def failing_lemmas(make_out):
    """Map coqc error locations to the enclosing Lemma/Theorem names."""
    res = []
    for m in ERR_RE.finditer(make_out):
        path, line = m.group(1), int(m.group(2))
        tail = make_out[m.end():m.end() + 1500]
        if tail.lstrip().startswith("Warning") or "\nWarning:" in tail[:200] and "Error" not in tail[:400]:
            continue
        if "Error" not in tail[:1200]:
            continue
        name = "?"
        try:
            lines = open(os.path.join(COQ, path), encoding="utf-8").read().split("\n")
            for i in range(min(line, len(lines)) - 1, -1, -1):
                mm = re.match(r"\s*(Lemma|Theorem|Example|Corollary|Definition|Fixpoint|Fact|Remark)\s+([A-Za-z0-9_']+)", lines[i])
                if mm:
                    name = mm.group(2)
                    break
        except OSError:
            pass
        msg = tail.split("\n\n")[0].strip()[:600]
        res.append({"file": "coq/" + path, "line": line, "lemma": name, "error": msg})
    return res


def count_obligations(files):
    n = 0
    names = []
    for f in files:
        try:
            txt = open(os.path.join(COQ, f), encoding="utf-8").read()
        except OSError:
            continue
        for mm in re.finditer(r"^\s*(Lemma|Theorem|Example|Corollary|Fact|Remark)\s+([A-Za-z0-9_']+)", txt, re.M):
            n += 1
            names.append(f + ":" + mm.group(2))
    return n, names


FORBIDDEN = re.compile(r"\b(Admitted|admit|Axiom|Axioms|Parameter|Parameters|Conjecture|Conjectures|bypass_check)\b|Unset\s+Guard|Unset\s+Positivity|Unset\s+Universe|Admit\s+Obligations|type-in-type|impredicative-set")


def strip_comments(txt):
    out, depth, i = [], 0, 0
    while i < len(txt):
        if txt.startswith("(*", i):
            depth += 1
            i += 2
        elif txt.startswith("*)", i) and depth > 0:
            depth -= 1
            i += 2
        else:
            if depth == 0:
                out.append(txt[i])
            elif txt[i] == "\n":
                out.append("\n")
            i += 1
    return "".join(out)


def scan_sources():
    """No Admitted/admit/Axiom/Parameter/... anywhere; Variable/Hypothesis only inside Sections."""
    bad = []
    for root, _, files in os.walk(COQ):
        for fn in files:
            if not fn.endswith(".v"):
                continue
            p = os.path.join(root, fn)
            txt = strip_comments(open(p, encoding="utf-8").read())
            # string literals may contain anything: drop them
            txt_ns = re.sub(r'"(?:[^"]|"")*"', '""', txt)
            for m in FORBIDDEN.finditer(txt_ns):
                bad.append("%s: forbidden '%s'" % (os.path.relpath(p, VERIF), m.group(0)))
            depth = 0
            for line in txt_ns.split("\n"):
                if re.match(r"\s*Section\s+\w+", line):
                    depth += 1
                elif re.match(r"\s*End\s+\w+\s*\.", line) and depth > 0:
                    depth -= 1
                elif re.match(r"\s*(Variable|Variables|Hypothesis|Hypotheses|Context)\b", line) and depth == 0:
                    bad.append("%s: '%s' outside a section" % (os.path.relpath(p, VERIF), line.strip()))
    proj = open(os.path.join(COQ, "_CoqProject")).read()
    for w in ("type-in-type", "impredicative-set", "-vos", "-vok", "native"):
        if w in proj:
            bad.append("_CoqProject mentions " + w)
    return bad


def print_assumptions(pid):
    """Re-run coqc on Props/<ID>.v to obtain fresh Print Assumptions output; return (ok, axioms, log)."""
    rel = "Props/%s.v" % pid
    rc, out = sh(["timeout", "600", "coqc", "-Q", ".", "X", "-w", "-notation-overridden", rel], cwd=COQ, timeout=700)
    axioms = set()
    closed = 0
    cur = False
    for line in out.split("\n"):
        if line.startswith("Closed under the global context"):
            closed += 1
            cur = False
        elif line.startswith("Axioms:"):
            cur = True
        elif cur:
            m = re.match(r"^([A-Za-z0-9_.']+)\s*:", line)
            if m:
                axioms.add(m.group(1))
            elif line.strip() == "" or not line.startswith(" "):
                if not re.match(r"^\s", line):
                    cur = cur and bool(m)
    foreign = sorted(a for a in axioms if not a.startswith(ALLOWED_AXIOM_PREFIXES) and a not in ALLOWED_AXIOMS)
    return rc == 0, sorted(axioms), foreign, out


# ----------------------------------------------------------------------------- harness
def build_harness():
    hdir = os.path.join(VERIF, "harness")
    os.makedirs(BIN, exist_ok=True)
    gm = os.path.join(hdir, "go.mod")
    want = "replace github.com/antonmedv/expr => " + REPO
    txt = open(gm).read()
    cur = re.search(r"^replace github.com/antonmedv/expr => .*$", txt, re.M)
    if cur and cur.group(0) != want:
        if VERIF == "/verif":
            raise SystemExit("refusing to point /verif/harness at %s: use tools/mkscratch.sh and run the scratch copy's check.py" % REPO)
        open(gm, "w").write(txt.replace(cur.group(0), want))
    try:
        src = open(os.path.join(REPO, "go.sum"), "rb").read()
        open(os.path.join(hdir, "go.sum"), "wb").write(src)
    except OSError:
        pass
    rc, out = sh(["go", "build", "-tags", "verif", "-o", os.path.join(BIN, "harness"), "."], cwd=hdir, timeout=900)
    if rc != 0 and os.environ.get("VERIF_STRICT_HARNESS") != "1":
        # another vertical's file may be mid-edit: build a copy without the files that do not compile
        # (a vertical whose own file is dropped then fails with 'unknown property')
        import shutil
        bdir = os.path.join(WORK, "harness_build")
        dropped = set()
        for _ in range(6):
            bad = set(re.findall(r"^\./([A-Za-z0-9_]+\.go):\d+", out, re.M)) - {"main.go"}
            if not bad or bad <= dropped:
                break
            dropped |= bad
            shutil.rmtree(bdir, ignore_errors=True)
            os.makedirs(bdir)
            for fn in os.listdir(hdir):
                if (fn.endswith(".go") and fn not in dropped) or fn in ("go.mod", "go.sum"):
                    shutil.copy(os.path.join(hdir, fn), os.path.join(bdir, fn))
            rc, out2 = sh(["go", "build", "-tags", "verif", "-o", os.path.join(BIN, "harness"), "."], cwd=bdir, timeout=900)
            if rc == 0:
                print("note: harness built without files that do not compile right now: %s" % ", ".join(sorted(dropped)))
                return 0, out2
            out = out2
    return rc, out


def run_harness(pid, cfg, tier, seed, outdir, extra=None):
    os.makedirs(outdir, exist_ok=True)
    for fn in os.listdir(outdir):
        if fn.endswith((".v", ".out", ".vo", ".glob", ".vok", ".vos", ".aux", ".json")):
            os.unlink(os.path.join(outdir, fn))
    cmd = [os.path.join(BIN, "harness"), cfg["harness"], "-out", outdir, "-seed", str(seed), "-tier", tier]
    if tier == "thorough":
        cmd += ["-shards", "96"]   # thorough case lists are 10-50 times longer: keep every shard within its coqc time limit
    if extra:
        cmd += extra
    to = cfg.get("harness_timeout", {}).get(tier, 1200 if tier == "quick" else 3600)
    rc, out = sh(["timeout", str(to)] + cmd, timeout=to + 30)
    rep = None
    try:
        rep = json.load(open(os.path.join(outdir, "report.json")))
    except (OSError, ValueError):
        pass
    return rc, out, rep


M_RE = re.compile(r"M\s*=\s*(\[[^\]]*\])", re.S)


EVAL_TIMEOUT = 400      # per shard; raised to 1500 s in the thorough tier (main)


def eval_case_file(outdir, fn):
    to = EVAL_TIMEOUT
    rc, out = sh(["timeout", str(to), "coqc", "-Q", COQ, "X", "-w", "-notation-overridden", fn], cwd=outdir, timeout=to + 30)
    if rc == 124 and not out.strip():
        out = "coqc did not finish within %d s on this shard (machine under load or shard too large)" % to
    m = M_RE.search(out)
    if rc != 0 or not m:
        return fn, None, out[-2000:]
    body = m.group(1).strip()[1:-1].strip()
    idx = [int(x.strip().rstrip("%Z").strip("()")) for x in body.split(";")] if body else []
    return fn, idx, ""


def eval_cases(outdir, files):
    res = {}
    with ThreadPoolExecutor(max_workers=16) as ex:
        for fn, idx, err in ex.map(lambda f: eval_case_file(outdir, f), files):
            res[fn] = (idx, err)
    return res


def case_text(outdir, fn, i):
    """The i-th element of the `cases` list of a shard file (one case per line by construction)."""
    try:
        lines = open(os.path.join(outdir, fn), encoding="utf-8").read().split("\n")
    except OSError:
        return "?"
    start = next((k for k, l in enumerate(lines) if l.startswith("Definition cases")), None)
    if start is None:
        return "?"
    k = start + 1 + i
    return lines[k].strip().rstrip(";") if k < len(lines) else "?"


# ----------------------------------------------------------------------------- verdict
def load_known():
    try:
        return json.load(open(os.path.join(VERIF, "KNOWN_FINDINGS.json")))
    except (OSError, ValueError):
        return {"findings": [], "fixed": []}


def write_replay(pid, payload):
    os.makedirs(os.path.join(VERIF, "replays"), exist_ok=True)
    h = hashlib.sha1(json.dumps(payload, sort_keys=True, default=str).encode()).hexdigest()[:12]
    p = os.path.join(VERIF, "replays", "%s-%s.json" % (pid, h))
    json.dump(payload, open(p, "w"), indent=1, default=str)
    return p


def main():
    if len(sys.argv) >= 2 and sys.argv[1] == "--setup":
        return setup()
    if len(sys.argv) < 3:
        print(__doc__)
        return 2
    pid = sys.argv[1].upper()
    if sys.argv[2] == "--replay":
        return replay(pid, sys.argv[3])
    tier = os.environ.get("VERIF_TIER") or sys.argv[2]
    if tier not in ("quick", "thorough"):
        tier = sys.argv[2]
    seed = int(os.environ.get("VERIF_SEED", "20260923"))
    global EVAL_TIMEOUT
    if tier == "thorough":
        EVAL_TIMEOUT = 1500
    cfg = PROPS[pid]
    t0 = time.time()
    log = []
    proof_fail = []      # failing proof obligations / bridge lemmas
    corr_fail = []       # model vs implementation disagreements
    notes = []

    # (1) regenerate + proofs
    with Lock("coq"):
        rc, out = regenerate()
        if rc != 0:
            proof_fail.append({"file": "translator", "lemma": "translator", "error": out[-800:]})
        bad = scan_sources()
        for b in bad:
            proof_fail.append({"file": "coq", "lemma": "source-scan", "error": b})
        targets = list(cfg["targets"])
        rc, mout = coq_make(targets, timeout=cfg.get("make_timeout", 1500))
        log.append(mout[-3000:])
        if rc != 0:
            fl = failing_lemmas(mout)
            if not fl:
                fl = [{"file": "coq", "lemma": "make", "error": mout[-1500:]}]
            proof_fail.extend(fl)
        pa_ok, axioms, foreign, pa_out = (False, [], [], "")
        if rc == 0:
            pa_ok, axioms, foreign, pa_out = print_assumptions(pid)
            if not pa_ok:
                proof_fail.append({"file": "coq/Props/%s.v" % pid, "lemma": "Print Assumptions run", "error": pa_out[-800:]})
            for a in foreign:
                proof_fail.append({"file": "coq/Props/%s.v" % pid, "lemma": "axiom", "error": "theorem depends on axiom " + a})
    coqchk_info = None
    if tier == "thorough" and not proof_fail:
        # independent re-check of the compiled proofs and of everything they depend on
        with Lock("coq"):
            rc2, out2 = sh(["timeout", "3000", "coqchk", "-silent", "-o", "-Q", ".", "X", "X.Props.%s" % pid], cwd=COQ, timeout=3100)
        ax, sect = [], None
        for line in out2.split("\n"):
            if line.startswith("* "):
                sect = line
            elif sect and sect.startswith("* Axioms") and line.strip() and line.startswith("    "):
                ax.append(line.strip())
        bad_ax = [a for a in ax if not (a.startswith("Coq.Floats.") or a.startswith("Coq.Numbers.Cyclic.Int63.") or a.split(".")[-1] in ALLOWED_AXIOMS)]
        unsafe = [l for l in out2.split("\n") if l.startswith("* ") and "<none>" not in l and
                  ("type-in-type" in l or "unsafe (co)fixpoints" in l or "positivity is assumed" in l or "Set is impredicative" in l)]
        coqchk_info = {"exit": rc2, "axioms": ax, "foreign_axioms": bad_ax, "unsafe_sections": unsafe}
        if rc2 != 0 or bad_ax or unsafe:
            proof_fail.append({"file": "coq/Props/%s.v" % pid, "lemma": "coqchk", "error": (out2[-600:] if rc2 != 0 else "axioms %s unsafe %s" % (bad_ax, unsafe))})
    ob_files = ["Props/%s.v" % pid] + cfg.get("cone", [])
    obligations, ob_names = count_obligations(ob_files)
    failed_names = set(f["lemma"] for f in proof_fail)
    if any(f["lemma"] in ("make", "translator", "source-scan", "Print Assumptions run") for f in proof_fail):
        discharged = 0
    else:
        # a failing lemma stops its file: everything after it in that file and every file importing it is unchecked
        discharged = obligations
        for f in proof_fail:
            rel = f["file"].replace("coq/", "", 1)
            names_in_file = [n for n in ob_names if n.startswith(rel + ":")]
            pos = next((i for i, n in enumerate(names_in_file) if n.endswith(":" + f["lemma"])), 0)
            discharged -= len(names_in_file) - pos
            if rel != "Props/%s.v" % pid:
                discharged -= len([n for n in ob_names if n.startswith("Props/")])
        discharged = max(0, discharged)

    # (2) harness on the real implementation
    outdir = os.path.join(WORK, pid)
    rep = None
    hrc = 0
    if cfg.get("harness"):
        with Lock("harness"):
            hrc, hout = build_harness()
        if hrc != 0:
            corr_fail.append({"what": "harness does not build against /repo", "detail": hout[-1500:]})
        else:
            hrc, hout, rep = run_harness(pid, cfg, tier, seed, outdir)
            log.append(hout[-2000:])
            if rep is None:
                corr_fail.append({"what": "harness crashed", "detail": hout[-1500:]})

    # (3) model on the same inputs
    coq_cases = 0
    mismatches = []
    if rep and rep.get("case_files"):
        # the evaluators (Corr/*.vo) must exist; if the proof build failed they may not
        res = eval_cases(outdir, rep["case_files"])
        for fn, (idx, err) in sorted(res.items()):
            if idx is None:
                corr_fail.append({"what": "model evaluation failed on " + fn, "detail": err})
            else:
                div = cfg.get("mismatch_div", 1)
                for v in idx:
                    i, code = v // div, v % div
                    mismatches.append({"file": fn, "index": i, "code": code, "case": case_text(outdir, fn, i)[-1500:]})
        coq_cases = rep.get("coq_cases", 0)
        json.dump(mismatches, open(os.path.join(outdir, "mismatches.json"), "w"), indent=1)
        fbits = cfg.get("failure_bits", 0)
        for mm in mismatches:
            if mm.get("code", 0) & fbits:
                # the implementation-level statement of the property (reference vs implementation) fails on this input
                key = cfg.get("failure_key", pid + "-reference-mismatch")
                for kf in load_known().get("findings", []):
                    if kf.get("property") == pid and kf.get("status", "open") == "open" and kf.get("case_regex") and re.search(kf["case_regex"], mm["case"]):
                        key = kf["id"]
                if rep.get("failures") is None:
                    rep["failures"] = []
                rep["failures"].append({"key": key, "what": "implementation differs from the reference semantics (code %d)" % mm["code"],
                                                       "input": mm["case"], "got": "see case: observed vs reference", "replay": ""})
                rep.setdefault("histogram", {})["fail " + key] = rep.get("histogram", {}).get("fail " + key, 0) + 1
        for mm in [m for m in mismatches if not (m.get("code", 0) & fbits)][:20]:
            corr_fail.append({"what": "model and implementation disagree", "detail": mm})

    # (4) verdict
    known = load_known()
    open_ids = {f["id"]: f for f in known.get("findings", []) if f.get("property") == pid and f.get("status", "open") == "open"}
    failures = (rep.get("failures") or []) if rep else []
    known_hits, unknown = {}, []
    for f in failures:
        k = f.get("key", "")
        if k in open_ids:
            known_hits.setdefault(k, []).append(f)
        else:
            unknown.append(f)
    violation_lines = []
    hist = (rep or {}).get("histogram", {})
    for k, fs in sorted(known_hits.items()):
        print("KNOWN-FINDING: property=%s %s [%s] e.g. %s -> %s (%d input(s) this run)" % (
            pid, open_ids[k].get("what", k), k, json.dumps(fs[0].get("input")), fs[0].get("got"), hist.get("fail " + k, len(fs))))
    for k in sorted(open_ids):
        if k not in known_hits:
            print("KNOWN-FINDING: property=%s %s [%s] (listed; not reproduced by this run's sample)" % (pid, open_ids[k].get("what", k), k))
    if unknown:
        # group by key, one replay per key
        seen = set()
        for f in unknown:
            if f.get("key") in seen:
                continue
            seen.add(f.get("key"))
            path = write_replay(pid, {"property": pid, "kind": "failing-input", "failure": f, "seed": seed, "tier": tier,
                                      "replay_cmd": "tools/check.py %s --replay <this file>" % pid,
                                      "broken_obligations": proof_fail[:5], "correspondence": corr_fail[:5]})
            violation_lines.append("VIOLATION property=%s replay=%s" % (pid, path))
    elif proof_fail or corr_fail:
        path = write_replay(pid, {"property": pid, "kind": "no-failing-input-found", "seed": seed, "tier": tier,
                                  "broken_obligations": proof_fail[:10], "correspondence": corr_fail[:10],
                                  "searched": (rep or {}).get("rule", "harness did not run"),
                                  "evaluations": (rep or {}).get("evaluations", 0)})
        violation_lines.append("VIOLATION property=%s replay=%s no-failing-input-found" % (pid, path))
    for l in violation_lines:
        print(l)

    # (5) evidence
    wall = time.time() - t0
    cov = {
        "obligations": obligations,
        "discharged": discharged,
        "checker_cmd": "cd coq && make -j16 %s && coqc -Q . X Props/%s.v  (coqc 8.16.1; Print Assumptions under every theorem)" % (" ".join(cfg["targets"]), pid),
        "trusted_base": TRUSTED_COMMON + cfg.get("trusted", []),
        "axioms_reported": axioms,
        "evaluations": (rep or {}).get("evaluations", 0),
        "distinct_nontrivial": (rep or {}).get("distinct_nontrivial", 0),
        "rule": (rep or {}).get("rule", ""),
        "samples": ((rep or {}).get("samples") or [])[:8] or ob_names[:8],
        "exhaustive": bool((rep or {}).get("exhaustive", False)),
        "traces_validated_against_impl": coq_cases,
        "model_impl_mismatches": len(mismatches),
        "oracle_failures_known": sum(hist.get("fail " + k, len(v)) for k, v in known_hits.items()),
        "oracle_failures_unknown": sum(hist.get("fail " + k, 1) for k in set(f.get("key") for f in unknown)),
        "histogram": (rep or {}).get("histogram", {}),
        "theorems": ob_names,
        "broken_obligations": proof_fail[:10],
        "explanation": cfg.get("explanation", ""),
    }
    if coqchk_info is not None:
        cov["coqchk"] = coqchk_info
    if rep and rep.get("extra"):
        cov["extra"] = rep["extra"]
    ev = {"property_id": pid, "tier": tier, "seed": seed, "level": "proof", "coverage": cov,
          "assumptions": cfg.get("assumptions", []), "wall_s": round(wall, 2), "violations": len(violation_lines)}
    os.makedirs(os.path.join(VERIF, "evidence"), exist_ok=True)
    json.dump(ev, open(os.path.join(VERIF, "evidence", "%s.json" % pid), "w"), indent=1, default=str)
    print("%s %s: obligations %d/%d, harness evaluations %d, model-vs-impl cases %d (mismatches %d), oracle failures known %d unknown %d, %.1fs" % (
        pid, tier, discharged, obligations, cov["evaluations"], coq_cases, len(mismatches),
        cov["oracle_failures_known"], cov["oracle_failures_unknown"], wall))
    if proof_fail:
        for f in proof_fail[:5]:
            print("  broken obligation: %s (%s:%s) %s" % (f.get("lemma"), f.get("file"), f.get("line", ""), (f.get("error") or "")[:300].replace("\n", " ")))
    if corr_fail:
        for c in corr_fail[:5]:
            print("  correspondence: %s %s" % (c["what"], json.dumps(c.get("detail"))[:400]))
    return 1 if violation_lines else 0


def replay(pid, path):
    d = json.load(open(path))
    print(json.dumps(d, indent=1))
    f = d.get("failure") or {}
    if f.get("replay"):
        with Lock("harness"):
            rc, out = build_harness()
        if rc != 0:
            print(out)
            return 2
        outdir = os.path.join(WORK, pid + "-replay")
        os.makedirs(outdir, exist_ok=True)
        rc, out = sh([os.path.join(BIN, "harness"), PROPS[pid]["harness"], "-out", outdir, "-replay", f["replay"]], timeout=600)
        print(out)
        return rc
    return 0


def setup():
    t0 = time.time()
    build_translator()
    rc, out = regenerate()
    if rc != 0:
        print(out)
        return 1
    ensure_makefile()
    rc, out = coq_make([], timeout=3000)
    print(out[-3000:])
    if rc != 0:
        # every check rebuilds its own targets and reports its own failures: a file that does not
        # build must not prevent the other properties from being checked
        print("setup: some Coq files did not build (the checks that need them will report it):")
        for fl in failing_lemmas(out)[:20]:
            print("   %s:%s %s" % (fl["file"], fl["line"], fl["lemma"]))
    hrc, hout = build_harness()
    if hrc != 0:
        print(hout)
        return 1
    print("setup ok in %.0fs" % (time.time() - t0))
    return 0


if __name__ == "__main__":
    sys.exit(main())

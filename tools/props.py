"""Per-property configuration of tools/check.py."""

TRUSTED_COMMON = [
    "Coq 8.16.1 kernel incl. its vm_compute bytecode VM (native_compute not used)",
    "primitive floats / 63-bit integers of the kernel (PrimFloat.*, PrimInt63.* listed by Print Assumptions)",
    "no Axiom/Parameter/Admitted in /verif/coq (source scan on every run)",
    "/verif/translator (go/ast -> coq/gen/*.v), cross-checked by the executed correspondence",
    "/verif/harness: generators, Go->Coq serialisers, implementation-level oracle",
    "Go 1.23.5 toolchain and standard library behave as documented",
]

import glob, importlib.util, os

PROPS, MANIFEST_TEXT = {}, {}
for _f in sorted(glob.glob(os.path.join(os.path.dirname(os.path.abspath(__file__)), "propdefs", "C*.py"))):
    _pid = os.path.basename(_f)[:-3]
    _spec = importlib.util.spec_from_file_location("propdef_" + _pid, _f)
    _m = importlib.util.module_from_spec(_spec)
    _spec.loader.exec_module(_m)
    PROPS[_pid] = _m.PROP
    MANIFEST_TEXT[_pid] = _m.MANIFEST

NOT_APPLICABLE = {pid: "check not built yet in this session (planned, see DESIGN.md section 7)" for pid in
                  ["C%02d" % i for i in range(1, 19)]}

"""Per-property configuration of tools/check.py."""

TRUSTED_COMMON = [
    "Coq 8.16.1 kernel incl. its vm_compute bytecode VM (native_compute not used)",
    "primitive floats / 63-bit integers of the kernel (PrimFloat.*, PrimInt63.* listed by Print Assumptions)",
    "no Axiom/Parameter/Admitted in /verif/coq (source scan on every run)",
    "/verif/translator (go/ast -> coq/gen/*.v), cross-checked by the executed correspondence",
    "/verif/harness: generators, Go->Coq serialisers, implementation-level oracle",
    "Go 1.23.5 toolchain and standard library behave as documented",
]

import glob, importlib.util, os

PROPS, MANIFEST_TEXT = {}, {}
for _f in sorted(glob.glob(os.path.join(os.path.dirname(os.path.abspath(__file__)), "propdefs", "C*.py"))):
    _pid = os.path.basename(_f)[:-3]
    _spec = importlib.util.spec_from_file_location("propdef_" + _pid, _f)
    _m = importlib.util.module_from_spec(_spec)
    _spec.loader.exec_module(_m)
    PROPS[_pid] = _m.PROP
    MANIFEST_TEXT[_pid] = _m.MANIFEST

# ---------------------------------------------------------------------------------------------------------------------------
# Ties a property's theorems RELY on although they are proved in another property's files.  A theorem about the reference
# semantics / the pipeline model says something about the Go code only through "model = regenerated source" bridges of the
# stages the property runs through; when such a bridge no longer checks, the property is no longer shown to hold for the code
# (the check then searches for a failing input and otherwise reports `no-failing-input-found`, naming the bridge lemma).
RUN_TIE = ["Bridge/BrSchemes.vo", "Bridge/BrSchemesItems.vo", "Bridge/BrSchemesMatches.vo", "Bridge/BrAssemble.vo", "Bridge/BrVMSteps.vo", "Bridge/BrRuntime.vo", "Bridge/BrRuntimeEq.vo", "Bridge/BrC14.vo"]   # compiler schemes, dispatch loop, run-time helpers, helper tables
FRONT_TIE = ["Bridge/BrLexer.vo", "Bridge/BrParser.vo"]
CHECK_TIE = ["Bridge/BrChecker.vo", "Bridge/BrMembersChecker.vo", "Bridge/BrTables.vo"]
OPT_TIE = ["Bridge/BrOpt.vo"]
PIPE_TIE = ["Bridge/BrC04.vo"]        # stage order of expr.Compile / Eval / Run, recover table
WALK_TIE = ["Bridge/BrC10.vo"]
TIES = {
    "C02": RUN_TIE + PIPE_TIE + WALK_TIE,
    "C03": RUN_TIE + PIPE_TIE + OPT_TIE + ["Bridge/BrTables.vo"],
    "C04": FRONT_TIE + CHECK_TIE + OPT_TIE + RUN_TIE + PIPE_TIE + WALK_TIE + ["Bridge/BrSource.vo"],
    "C06": ["Bridge/BrRuntime.vo", "Bridge/BrSchemes.vo"] + OPT_TIE + PIPE_TIE,   # round 7: constants are materialised by the optimizer passes, in the order expr.Compile runs them
    "C07": ["Bridge/BrRuntime.vo"],
    "C10": PIPE_TIE + OPT_TIE + ["Bridge/BrTables.vo", "Bridge/BrChecker.vo"],   # round 7: the operator patcher and type-directed visitors read the checker's types
    "C13": FRONT_TIE + CHECK_TIE + RUN_TIE + PIPE_TIE,
    "C14": ["Bridge/BrSchemes.vo", "Bridge/BrVMSteps.vo"] + OPT_TIE,   # round 7: arithmetic reaches the helpers through the code-generation schemes and the folding pass
    "C15": RUN_TIE + CHECK_TIE + PIPE_TIE + OPT_TIE,
    "C16": RUN_TIE + FRONT_TIE + ["Bridge/BrChecker.vo"],   # round 7: a member name is accepted only if the lexer and parser read it as a name
    "C17": RUN_TIE + PIPE_TIE + WALK_TIE + OPT_TIE + ["Bridge/BrChecker.vo"],
    "C18": RUN_TIE + PIPE_TIE + OPT_TIE,
}
for _pid, _extra in TIES.items():
    _t = PROPS[_pid]["targets"]
    PROPS[_pid]["tie_targets"] = [x for x in _extra if x not in _t]
    _t.extend(PROPS[_pid]["tie_targets"])

NOT_APPLICABLE = {pid: "check not built yet in this session (planned, see DESIGN.md section 7)" for pid in
                  ["C%02d" % i for i in range(1, 19)]}

#!/usr/bin/env python3
"""Debug helper: tools/dbg_case.py <workdir> <shardfile> <index> — evaluates the model on one case."""
import sys, subprocess, os, re
d, fn, idx = sys.argv[1], sys.argv[2], int(sys.argv[3])
lines = open(os.path.join(d, fn)).read().split("\n")
start = next(k for k, l in enumerate(lines) if l.startswith("Definition cases"))
hdr = "\n".join(lines[:start])
case = lines[start + 1 + idx].strip().rstrip(";")
m = re.search(r"\(\* (.*) \*\)\s*$", case)
print("SOURCE:", m.group(1) if m else "?")
body = re.sub(r"\(\* .* \*\)\s*$", "", case)
v = hdr + "\nDefinition c := " + body + ".\n" + """
Definition cfg := mkCfg (cc_mapenv c) (cc_limit c).
Eval vm_compute in (cc_obs c).
Eval vm_compute in (run_ref fe cfg (cc_env c) (cc_cast c) (cc_expr c)).
Eval vm_compute in (X.BC.VM.run_code fe cfg (cc_env c) (X.BC.Compiler.compile_program (cc_mapenv c) (cc_cast c) (cc_expr c)) 40).
Eval vm_compute in (case_code fe c).
"""
p = os.path.join(d, "dbg_case.v")
open(p, "w").write(v)
out = subprocess.run(["coqc", "-Q", "/verif/coq", "X", "dbg_case.v"], cwd=d, stdout=subprocess.PIPE, stderr=subprocess.STDOUT).stdout.decode()
print(out[-6000:])

"""C18 — configuration of tools/check.py and text of the MANIFEST entry."""

PROP = {
    "targets": ["Props/C18.vo", "Corr/CorrCore.vo", "Bridge/BrC0809.vo"],
    "cone": ["Sem/SemProofs.v", "Bridge/BrC0809.v"],
    "harness": "c18",
    "mismatch_div": 16,
    "failure_bits": 8,
    "trusted": ["purity premise of the functional model (no state survives a Compile / Run call): Bridge/BrC0809.v over the regenerated write / call / package-variable inventory - a cache or other package-level state breaks it",
                "reference semantics Sem/Sem.v + primitive operations Sem/Prim.v (the theorems of Props/C18.v are ABOUT this semantics; it is executed against vm.Run on every run, together with the model compiler and model VM, on exactly the programs of both sides of every identity)",
                "the tie reference semantics <-> compiled code for all programs is C01's (compiler-correctness proof + executed correspondence)",
                "harness environment universe mirrored in Corr/Universe.v; regexp and math.Pow are oracle tables computed by Go"],
    "assumptions": ["collections are Go slices (at most MaxInt elements); maps are excluded from count = len(filter) (filter over a map fails at the element fetch)",
                    "x in a..b: x of an integer kind; for int8/int16/int32 operands the bounds must be representable in that kind (known finding C18-in-range-narrow-kind, consequence of C14-rank)",
                    "environment values come from the harness universe"],
    "explanation": "the identities are theorems about Sem.eval for all collections, predicates (with effects and failures), contexts and states (induction over the loop combinators; C18_innermost by induction over expression size); on the implementation both sides of every identity are compiled (untyped/typed x optimizer off/on) and run on several environments and judged in Go, filter / nested closures / slicing also against natively computed results; every run of the core set is replayed in the Coq reference semantics, model compiler and model VM",
}

MANIFEST = {
    "text": "Coq theorems (kernel-checked on every run) about the reference big-step semantics Sem.eval, for ALL collection values, ALL predicate/mapper expressions (with environment calls in the trace and failures), all closure contexts and states: all(xs,p) = not any(xs, not p) and none = not any including allocation counter, call trace and failure class (both stop at the same element); one = (count == 1); count = len(filter) up to the elements filter accounts (or the budget refusal); len(map(xs,f)) = len(xs) with an exact characterisation (f is run for its effects only); filter = List.filter over the elements for an effect-free total predicate; C18_innermost: the evaluation of ANY expression depends on the innermost (collection, index) frame only, so a closure nested to any depth sees the element of its own collection, plus `#` = element index i of the head frame and every looping builtin evaluates its closure only under its own frame; x in a..b = (x >= a and x <= b) through the regenerated helper table for every integer kind (bounds representable in the comparison kind; full statement refuted for int8/16/32 by a vm_compute witness = known finding); xs[0:i] ++ xs[i:] = xs for 0 <= i incl. i > len, negative i fails on both halves. Tie: both sides of every identity are compiled by the real pipeline (untyped/typed x optimizer off/on), run with vm.Run on 6 environments and judged in Go (values, call logs, failure classes; filter, nested closures to depth 4+ and slicing also against results computed natively in Go; each identity also as ONE expression lhs == rhs); every run of the core set is evaluated in the Coq reference semantics, the model compiler (decoded Go bytecode compared instruction by instruction) and the model VM.",
    "design_ref": "DESIGN.md §4 C18",
    "note": "Trusted: Coq kernel + vm_compute; Sem/Sem.v + Sem/Prim.v as the language definition (validated by execution each run; transfer to compiled code for all programs is C01's theorem); translator-regenerated helper table (C18_in_range re-checked against it on every run); harness generators/serialisers. Known finding C18-in-range-narrow-kind (consequence of C14-rank).",
    "technique": "Coq proof by induction over loop combinators and expression size on the reference semantics + implementation-level identity oracle in Go + executed correspondence (reference semantics, model compiler, model VM) on the same programs",
}

"""C14 — configuration of tools/check.py and text of the MANIFEST entry."""

PROP = {
    "targets": ["Props/C14.vo", "Corr/CorrC14.vo", "Bridge/BrC0809.vo"],
    "cone": ["Bridge/BrC14.v", "Base/NumProofs.v", "Bridge/BrC0809.v"],
    "harness": "c14",
    "trusted": ["purity premise of the functional model (no state survives a Compile / Run call): Bridge/BrC0809.v over the regenerated write / call / package-variable inventory - a cache or other package-level state breaks it",
                "model of Go integer wrap-around / float32 rounding in coq/Base/Num.v (validated by the correspondence on every run)"],
    "assumptions": ["int/uint are 64-bit (amd64)", "float->integer conversions out of range are implementation-defined in Go and excluded",
                    "math.Pow is not modelled (the ** operator is judged against Go's math.Pow on the implementation only)"],
    "explanation": "Theorems C14_table/C14_rule/C14_kind_predicted are re-checked against the table regenerated from vm/helpers.go and checker/types.go; the model instantiated with that table is executed on the inputs the implementation ran",
}

MANIFEST = {
    "text": "Coq theorems (kernel-checked on every run) over the conversion table REGENERATED from vm/helpers.go, vm/runtime.go and checker/types.go: every one of the 1 402 generated cases converts exactly the lower-ranked operand to the higher-ranked kind (reference rank written from the property), for all operand values the helper equals Go's operator after that conversion, integer division truncates, /0 and %0 are errors, and the result kind is the checker's `combined`. The 12 ordered kind pairs of known finding C14-rank are carved out by a decidable predicate proved tight. The model instantiated with the regenerated table is executed on the inputs the implementation ran (vm_compute), and every grid point of 144 kind pairs x 12 operators is judged on the implementation against Go's own conversion+operator.",
    "design_ref": "DESIGN.md §4 C14",
    "note": "Trusted: Coq kernel + vm_compute + primitive floats; translator reading helpers.go; numeric model Base/Num.v (validated by correspondence each run); Go's own arithmetic as oracle. math.Pow not modelled. Float->int out-of-range conversions excluded (Go leaves them implementation-defined).",
    "technique": "Coq proof: finite table sweep by vm_compute lifted with forallb_forall over a translator-regenerated table + generic value-level lemma; executed model/implementation correspondence",
}

"""C05 — configuration of tools/check.py and text of the MANIFEST entry."""

PROP = {
    "targets": ["Props/C05.vo", "Corr/CorrCore.vo", "Corr/CorrC05b.vo"],
    "cone": ["BC/Verify.v", "BC/CompileProofs.v", "BC/AssembleProofs.v"],
    "harness": "c05",
    "mismatch_div": 16,
    "failure_bits": 10,
    "failure_key": "C05-verifier-or-reference-mismatch",
    "trusted": ["decode (BC/Decode.v) as the reading of vm.Program bytes; opcode numbering regenerated from vm/opcodes.go",
                "model compiler tied to compiler.Compile by decoding the Go bytes of every generated program and comparing instruction by instruction"],
    "assumptions": ["jump offsets / constant indexes above 2^16-1 are refused at compile time (fix 6771867); large-program behaviour is judged on the implementation"],
    "explanation": "verifier soundness and compile well-formedness are theorems; the verifier itself runs (vm_compute) on the bytes of every program the Go compiler produced in this run",
}

MANIFEST = {
    "text": "Coq theorems: (1) the structural verifier (linear decode: known opcodes, operands in range and of the expected constant kind; jump check: every target on an instruction boundary in [0, len]) is sound — on verified code the program counter stays on boundaries for every run; (2) every program the model compiler emits passes the jump check (induction over all 22 node kinds, all nestings); (3) stack balance and absence of machine failures for compiled programs as instances of compile_correct (a successful run ends with exactly [result] and no scope; a failing run stops exactly where and why the stack-less reference semantics stops). (4) BYTE LEVEL (BC/Assemble.v, a model of emit / makeConstant / placeholder / patchJump / calcBackwardJump / encode incl. the constant pool in makeConstant-call order with Go map-key de-duplication, the 65535-entry and 65535-offset limits): decode (assemble C) returns C for code of any length (C05_decode_assemble: up to Go-equal pushed constants; C05_decode_assemble_exact: exactly, under a decidable carve-out that only concerns -0.0 inside by-value struct constants - refuted without it), hence every byte program the model compiler emits passes the whole structural verifier (C05_bytes_wf / C05_compile_bytes_wf: operands in range and of the expected constant kind, jumps on boundaries), all bytes are in 0..255, and assembling fails ONLY for an unhashable constant, a jump beyond 65535 or a pool beyond 65535 entries (C05_assemble_fails_only_when_too_big, both directions). Tie: the verified verifier is executed inside Coq on the serialised Bytecode/Constants of every program compiler.Compile produced in this run and the decoded code is compared with the model compiler; the byte-level model compile_bytes is compared with Program.Bytecode / Constants / Locations of the same programs byte for byte, constant for constant (second evaluation of every case file); on the implementation VM.Stack()/Scope() are inspected after every run and machine-class failures are searched, including programs around the 64 KiB jump limit and the 2^16 constant limit.",
    "design_ref": "DESIGN.md §4 C05",
    "note": "Trusted: Coq kernel; decode as model of the byte format; serialiser. The byte level is tied both ways: decoding real bytes and comparing with the model compiler, and assembling the model compiler's code and comparing with the real bytes; decode . assemble = id is a theorem. The exactness theorems use two standard-library float facts (FloatAxioms.eqb_spec, FloatAxioms.SF2Prim_Prim2SF). Skipped by the byte comparison: the optimizer's pointer-shared MatchesNode (the serialised tree holds two copies).",
    "technique": "Coq proof: verified bytecode verifier + compile well-formedness by induction + corollaries of the compiler-correctness simulation + decode/assemble inversion for the byte-level assembler model (induction over the code with the pool invariant); verifier executed on the Go compiler's bytes; assembler model executed against the Go compiler's bytes",
}

"""C05 — configuration of tools/check.py and text of the MANIFEST entry."""

PROP = {
    "targets": ["Props/C05.vo", "Corr/CorrCore.vo"],
    "cone": ["BC/Verify.v", "BC/CompileProofs.v"],
    "harness": "c05",
    "mismatch_div": 16,
    "failure_bits": 10,
    "failure_key": "C05-verifier-or-reference-mismatch",
    "trusted": ["decode (BC/Decode.v) as the reading of vm.Program bytes; opcode numbering regenerated from vm/opcodes.go",
                "model compiler tied to compiler.Compile by decoding the Go bytes of every generated program and comparing instruction by instruction"],
    "assumptions": ["jump offsets / constant indexes above 2^16-1 are refused at compile time (fix 6771867); large-program behaviour is judged on the implementation"],
    "explanation": "verifier soundness and compile well-formedness are theorems; the verifier itself runs (vm_compute) on the bytes of every program the Go compiler produced in this run",
}

MANIFEST = {
    "text": "Coq theorems: (1) the structural verifier (linear decode: known opcodes, operands in range and of the expected constant kind; jump check: every target on an instruction boundary in [0, len]) is sound — on verified code the program counter stays on boundaries for every run; (2) every program the model compiler emits passes the jump check (induction over all 22 node kinds, all nestings); (3) stack balance and absence of machine failures for compiled programs as instances of compile_correct (a successful run ends with exactly [result] and no scope; a failing run stops exactly where and why the stack-less reference semantics stops). Tie: the verified verifier is executed inside Coq on the serialised Bytecode/Constants of every program compiler.Compile produced in this run and the decoded code is compared with the model compiler; on the implementation VM.Stack()/Scope() are inspected after every run and machine-class failures are searched, including programs around the 64 KiB jump limit and the 2^16 constant limit.",
    "design_ref": "DESIGN.md §4 C05",
    "note": "Trusted: Coq kernel; decode as model of the byte format; serialiser. No assemble model: the byte level is tied by decoding real bytes, not by an encode/decode inversion theorem.",
    "technique": "Coq proof: verified bytecode verifier + compile well-formedness by induction + corollaries of the compiler-correctness simulation; verifier executed on the Go compiler's bytes",
}

"""C12 — configuration of tools/check.py and text of the MANIFEST entry."""

PROP = {
    "targets": ["Props/C12.vo", "Corr/CorrC12.vo", "Bridge/BrC0809.vo"],
    "cone": ["Lex/LexProofs.v", "Bridge/BrC0809.v"],
    "harness": "c12",
    "trusted": ["purity premise of the functional model (no state survives a Compile / Run call): Bridge/BrC0809.v over the regenerated write / call / package-variable inventory - a cache or other package-level state breaks it",
                "hand model of parser/lexer/{lexer,state,utils}.go and of the Number case of parser.go parsePrimaryExpression in coq/Lex/Lexer.v (rune-level; executed against lexer.Lex / parser.Parse on every run)",
                "unicode.IsLetter/IsDigit/IsSpace on code points >= 128 and strconv.ParseFloat are oracle arguments of the model (theorems hold for every oracle; case files carry the values computed by the Go library)"],
    "assumptions": ["the lexer input is valid UTF-8 (file.NewSource converts through []rune, so it always is)", "int is 64-bit (amd64)",
                    "strconv.ParseFloat is correctly rounded (not modelled: the theorem is that it receives exactly the literal's characters without `_`)",
                    "the EOF token has no first character: it is located at the last rune read (lexer.go emitEOF, by design)"],
    "explanation": "Theorems C12_string/C12_int_dec/C12_int_hex/C12_float_class/C12_positions are proved for all inputs over the hand model Lex/Lexer.v; the model is executed (vm_compute) on the inputs the real lexer.Lex/parser.Parse ran on and every observable (token kind, value bytes, line, column, error location, literal node value) is compared; independently every generated literal/layout is judged on the implementation against the property (round trip, position of first character)",
}

MANIFEST = {
    "text": "Coq theorems (kernel-checked on every run) over an executable rune-level model of the lexer state machine (next/backup/peek/accept*/scanString/scanEscape/scanNumber, root/number/dot/nilsafe/identifier/not, exact loc/prev/startLoc bookkeeping), unescape/unescapeChar and the literal classification with strconv.ParseInt modelled exactly: for ALL inputs (induction, no bound) every string written with the supported escapes in either quote lexes to one String token carrying exactly its UTF-8 bytes; every decimal spelling (any placement of `_` separators, leading zeros) and every 0x/0X hexadecimal spelling in either case of every n < 2^63 lexes to one Number token classified as integer n; every decimal / leading-dot / exponent float spelling lexes to one Number token, is classified float, and strconv.ParseFloat receives exactly its characters without `_`; every sequence of identifier, number, operator, bracket and string tokens laid out with arbitrary runs of space/tab/CR/LF gets, for each token, the line and column of its first character. The model is tied to the source by executing it on the inputs the real lexer.Lex/parser.Parse ran on (thousands of literals, layouts and a malformed stream per run: kinds, value bytes, locations, error locations, literal node values), and each generated case is also judged on the implementation against the property itself.",
    "design_ref": "DESIGN.md §4 C12, Appendix C",
    "note": "Trusted: Coq kernel + vm_compute; hand model Lex/Lexer.v (validated by executed correspondence each run, not derived from the source); harness generators/serialisers; strconv.ParseFloat and the unicode tables >= U+0080 are oracles (theorems parametric). Known finding C12-raw-cr: a raw carriage return inside a literal is normalised to a line feed. The EOF token is located at the last rune read (by design).",
    "technique": "Coq proof by induction over rune lists / digit lists / token lists with a lexer-state invariant; executed model/implementation correspondence; round-trip and position oracle on the implementation",
}

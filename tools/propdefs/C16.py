"""C16 — configuration of tools/check.py and text of the MANIFEST entry."""

PROP = {
    "targets": ["Props/C16.vo", "Corr/CorrC16.vo", "Bridge/BrC0809.vo"],
    "cone": ["Ty/TyProofs.v", "Bridge/BrC0809.v"],
    "harness": "c16",
    "trusted": ["purity premise of the functional model (no state survives a Compile / Run call): Bridge/BrC0809.v over the regenerated write / call / package-variable inventory - a cache or other package-level state breaks it",
                "hand model coq/Ty/TypesTable.v of conf/types_table.go, checker/types.go (fieldType, methodType), the four member cases of checker/checker.go, vm/runtime.go (fetch, FetchFn) and the name set of docgen.CreateDoc - tied to the source by the executed correspondence on every run",
                "reference rule go_resolve (coq/Ty/Types.v), written from the Go specification and compared with reflect.Type.FieldByName / MethodByName on every run",
                "harness/ser_types.go (reflect.Type -> Coq ty / tenv)"],
    "assumptions": ["method sets are the ones reflect reports (promotion is not recomputed)",
                    "type fragment: pointers only to structs on access paths, maps keyed by string, no declared non-struct types with methods",
                    "embedding is acyclic (decidable hypothesis fuel_ok); on `type T struct{ *T }` the real FieldsFromStruct overflows the stack",
                    "accesses through interface{}-typed members and through unpopulated map keys are dynamically typed and not judged"],
    "explanation": "Theorems over every type environment (induction on embedding depth) about a hand model that is executed against the real conf.CreateTypesTable / expr.Compile / checker.Check / expr.Run / docgen.CreateDoc on every run; each case is also judged on the implementation against Go's own reflect (selector rule)",
}

MANIFEST = {
    "text": "Coq theorems (kernel-checked on every run) over a hand model of conf.CreateTypesTable / FieldsFromStruct, checker fieldType / methodType and the identifier, member, method and function cases, vm fetch / FetchFn and the docgen name set, for ALL struct declarations (induction on embedding depth) and all names: accepted => resolvable on the populated value with the assumed type (identifier, member path, method, function positions), Go-resolvable exported members of struct environments are accepted, documentation names = accepted names + fixed names, and independence of Go's map iteration order (explicit permutation argument). Since fix b9d2c0f (FieldsFromStruct re-resolves every name with reflect's FieldByName) completeness and the function position are proved at full strength and an identifier is accepted exactly when Go resolves it to an exported field; the five open findings (checker fieldType/methodType: unexported members, depth-first search; method names as identifiers; FetchFn on func-valued maps) are carved out by decidable predicates, each with a vm_compute counterexample; the two repaired findings are kept as examples about the old algorithm ffs_old. The model is executed (vm_compute, two iteration orders) on the environments and names the real code ran on; every case is judged in Go against reflect.FieldByName / MethodByName.",
    "design_ref": "DESIGN.md §4 C16",
    "note": "Trusted: Coq kernel + vm_compute; hand model (validated by correspondence each run); reference go_resolve (validated against reflect each run); harness type serialiser. Method promotion is taken from reflect, not recomputed. Dynamically typed accesses (through interface{}) are out of scope of the property.",
    "technique": "Coq proof by induction on embedding depth over a hand model + executed model/implementation correspondence + implementation-level oracle against Go's reflect",
}

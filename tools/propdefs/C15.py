"""C15 — configuration of tools/check.py and text of the MANIFEST entry."""

PROP = {
    "targets": ["Props/C15.vo", "Corr/CorrCore.vo"],
    "cone": ["BC/ModeProofs.v", "Sem/ModeAgree.v"],
    "harness": "c15",
    "mismatch_div": 16,
    "failure_bits": 8,
    "trusted": ["reference semantics and VM model tied to the implementation by the executed correspondence on typed and untyped trees",
                "the annotation conditions of C15_modes_agree (`ok`: retyped argument sites have a parameter of exactly that numeric kind) are what static typing of the callee gives; that the checker establishes them is C03's domain and is validated by the executed checker correspondence, not proved here"],
    "assumptions": ["environment functions behave the same in every mode (fn_run independent of which environment shape is the receiver)",
                    "fast_sound: a function flagged fast has the signature func(...interface{}) interface{}"],
    "explanation": "whole-expression agreement of all annotation / fast-flag / map-environment variants is a theorem about the reference semantics (strong induction on tree size); compile_correct (C01) transfers it to compiled code per tree; the eight variants are also compared pairwise on the implementation",
}

MANIFEST = {
    "text": "Coq theorems (kernel-checked on every run). C15_modes_agree: for ALL expressions (22 node kinds, strong induction on tree size), environments, closure contexts and run states, two trees that differ only in the checker's kind annotations (typed integer literals, OpEqualInt / OpEqualString selection) and Fast flags - i.e. the compilation variants of one source - and that both evaluate successfully in the reference semantics return the SAME value, the same call log and the same allocation count, provided the annotations are the sound ones (plain literals are int; a retyped literal-only argument tree has a callee parameter of exactly that kind). C15_modes_agree_gen / _mapenv / _struct_ptr / _struct_map: the same with OpFetchMap vs OpFetch on a map environment, struct vs pointer-to-struct vs map[string]interface{} with the same members (hypotheses on method sets and receiver-independence of functions stated). The statement for the trees the pinned checker REALLY produces (literals retyped below an argument that also has non-literal leaves) is kept as C15_modes_agree_full_statement and REFUTED by a vm_compute witness (`Half(I / 2 + Y)`: 0.25 typed, 0 untyped) = known finding C15-arg-retype-mixed, found by this proof and replayed on the implementation; C15_modes_agree_partial is the full statement under the decidable carve-out wf, and C15_ok_is_ok_full_and_wf shows the carve-out is exact. Instruction-level lemmas (OpEqualInt/OpEqualString vs OpEqual, OpFetchMap vs OpFetch, OpCallFast vs OpCall, typed literal = conversion) for all values. Transfer to compiled code is compile_correct (C01) per tree. On the implementation: Eval, Compile without Env, with Env(struct), Env(*struct), Env(map) with and without AllowUndefinedVariables, no Env on a map - 8 variants of every generated expression (incl. a family of retyped arithmetic arguments) x environment, all succeeding variants pairwise equal (values with dynamic types, call logs); typed and untyped trees are run through the Coq compiler, VM and reference semantics.",
    "design_ref": "DESIGN.md §4 C15, §12",
    "note": "Proved on the reference semantics; that checker.Check establishes the annotation conditions (`ok`) is not proved (C03's soundness proof is the place), it is validated by the checker correspondence. Known finding C15-arg-retype-mixed.",
    "technique": "Coq proof: strong induction on expression size over a two-tree relation (same shape up to annotations), kind-rigidity of reflect.Call's assignability for retyped arguments; vm_compute refutation of the unrestricted statement; pairwise differential execution of the eight compile/environment variants",
}

"""C15 — configuration of tools/check.py and text of the MANIFEST entry."""

PROP = {
    "targets": ["Props/C15.vo", "Corr/CorrCore.vo"],
    "cone": ["BC/ModeProofs.v"],
    "harness": "c15",
    "mismatch_div": 16,
    "failure_bits": 8,
    "trusted": ["reference semantics and VM model tied to the implementation by the executed correspondence on typed and untyped trees"],
    "assumptions": ["environment functions behave the same in every mode"],
    "explanation": "specialised-instruction lemmas are theorems; the eight variants are compared pairwise on the implementation",
}

MANIFEST = {
    "text": "Coq theorems: every type-directed specialisation of the compiler computes what the generic instruction computes whenever its static precondition holds dynamically (OpEqualInt / OpEqualString vs OpEqual; OpFetchMap vs OpFetch on a map environment; OpCallFast vs OpCall on a func(...interface{}) interface{}; typed integer literals vs conversion), for all values; struct value, pointer to it and map with the same members resolve members identically. Whole-expression agreement of the variants is judged on the implementation: Eval, Compile without Env, with Env(struct), Env(*struct), Env(map), with and without AllowUndefinedVariables, on every generated expression x environment, all succeeding variants pairwise equal (values with dynamic types and call logs); typed and untyped trees are also run through the Coq compiler, VM and reference semantics.",
    "design_ref": "DESIGN.md §4 C15",
    "note": "PARTIAL: the theorem covers each specialised instruction / lookup for all values; the whole-expression statement 'all succeeding variants agree' is not an induction in Coq, it is decided by the exhaustive pairwise comparison on the implementation plus compile_correct for each tree.",
    "technique": "Coq proof of instruction-level equivalences (for all values) + pairwise differential execution of the eight compile/environment variants",
}

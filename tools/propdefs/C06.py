"""C06 — configuration of tools/check.py and text of the MANIFEST entry."""

PROP = {
    "targets": ["Props/C06.vo", "Corr/CorrCore.vo", "Bridge/BrC0809.vo", "Bridge/BrVMSteps.vo"],
    "cone": ["BC/Budget.v", "BC/BudgetRun.v", "Bridge/BrVM.v", "Bridge/BrC0809.v", "BC/VMStepsProofs.v", "Bridge/BrVMSteps.v", "BC/SourceCorrect.v"],
    "harness": "c06",
    "mismatch_div": 16,
    "failure_bits": 8,
    "trusted": ["purity premise of the functional model (no state survives a Compile / Run call): Bridge/BrC0809.v over the regenerated write / call / package-variable inventory - a cache or other package-level state breaks it",
                "model VM (BC/VM.v) tied to vm.Run by the executed correspondence (C01/C06 cases) and to the compiler by compile_correct",
                "verif hook vm.VerifMemory (build tag verif) reading the VM's allocation counter"],
    "assumptions": ["allocation = elements of arrays, maps and ranges built by OpArray/OpMap/OpRange at run time; constants folded at compile time are not counted (property text: 'built during evaluation')",
                    "environment functions are not charged"],
    "explanation": "budget theorems hold for ANY program of the model VM; accounting shape regenerated from vm/vm.go; implementation judged at budgets N and N+1 around the measured need N",
}

MANIFEST = {
    "text": "Coq theorems about the model VM for ANY program, environment and budget (case analysis over all 52 instructions, induction over the run): the counter of created elements never decreases and is below the budget after every continuing step; a completed run created fewer elements than the budget; whatever a run did under one budget it does identically under every budget above what it created (never refused); under every budget at most what it created it fails with a budget error; descending ranges create nothing. The accounting statements of OpArray/OpMap/OpRange are re-read from vm/vm.go on every run (bridge lemma). Implementation: for generated allocating programs x environments the need N is measured (hook) and the real VM is run at budgets N+1, N, 1, 2, N/2, N+17, 10^6; the same runs are evaluated in the Coq VM and reference semantics. The accounting is tied by regeneration of the whole case bodies as well (Bridge/BrVMSteps.v): C06_range_accounting_is_source, C06_array_accounting_is_source, C06_map_accounting_is_source - the model's OpRange / OpArray / OpMap steps, budget test included, are the interpretation of the statements that exist in vm.go now. Over the regenerated terms only (BC/SourceCorrect.v): C06_source_budget_verdict_is_ref - the run of the code the regenerated compiler schemes produce, by the regenerated loop with its regenerated accounting statements, from a machine in any state, is refused for the budget exactly when the reference semantics refuses (side condition run_guard, executable; example: 8 elements, accepted under 9, refused under 8 and 7).",
    "design_ref": "DESIGN.md §4 C06",
    "note": "Trusted: Coq kernel; VM model tied by executed correspondence; translator reading vm.go; the hook. Compile-time constants (folded literals, constant ranges) are outside the budget by the property's wording; see C02-budget finding.",
    "technique": "Coq proof: per-instruction invariant + limit-independence lemmas lifted to runs by induction; regenerated accounting table; executed correspondence at budgets N / N+1",
}

"""C03 — configuration of tools/check.py and text of the MANIFEST entry."""

PROP = {
    "targets": ["Props/C03.vo", "Corr/CorrC03.vo"],
    "cone": ["Ty/CheckProofs.v"],
    "harness": "c03",
    "mismatch_div": 8,
    "trusted": ["hand model coq/Ty/Checker.v of checker.Check (checker/checker.go), checker/types.go and conf.FindSuitableOperatorOverload - tied to the source by the executed correspondence on every run (verdict, reported type, error location and family, re-annotated tree)",
                "reference semantics Sem/Sem.v + Sem/Prim.v (soundness is stated about it; its tie to the compiled code is C01's compile_correct and executed correspondence)",
                "reference relation ill_typed_ref (coq/Ty/CheckProofs.v) and the independent Go reference typer c03Ref of harness/c03.go, both written from the documented rules",
                "typeWeight / combined are read from checker/types.go by the translator (gen/GenWeights.v) on every run",
                "harness/ser_types.go, harness/ser_core.go (reflect.Type / AST -> Coq terms)"],
    "assumptions": ["environment functions return values of their declared result type (hypothesis on fenv)",
                    "value typing has_ty covers the fragment: no declared (named) non-struct types, pointers only to structs, maps keyed by string - outside it the recorded findings apply",
                    "struct environments (expr.Env(struct or *struct)); name resolution of the types table is C16's theorem",
                    "the optimizer is switched off for the runs of the oracle (its defects are C02's)"],
    "explanation": "theorems about the hand model for all expressions (induction over the tree) and all environment values of the declared type; the model is executed (vm_compute) on the configurations and trees the real checker.Check ran on; every generated program and every single-fault mutant is judged in Go: documented violations must be rejected by expr.Compile, accepted statically typed programs are run on every environment and must neither fail for a type reason nor return a value of another type than reported",
}

MANIFEST = {
    "text": "Coq theorems (kernel-checked on every run) over a hand model of checker.Check (type, re-annotated tree incl. setTypeForIntegers and node.Fast, first error with location; all node kinds, builtins with the collections stack, operator overloads, expect, strict / AllowUndefinedVariables / DefaultType) instantiated with typeWeight/combined REGENERATED from checker/types.go: C03_rejects (a violation of a documented typing rule at ANY node, or of the result directive, makes check report an error; induction over the position of the fault, the first recorded error survives every enclosing node), C03_first_error_survives (the first recorded error is the one reported, whatever is visited afterwards). The SOUNDNESS half of the property (accepted, fully static programs never fail for a type reason and return a value of the reported type; exact result kind under AsBool/AsInt64/AsFloat64) is NOT yet a Coq theorem: it is decided by the implementation-level oracle below and by the executed correspondence of the checker model. Tie: the model is executed on the configurations and freshly parsed trees on which the real checker.Check ran (verdict, reported reflect.Type, error location and message family, Kind annotation of every node, Fast flag; also the second check expr.Compile performs), 8 configurations. Oracle in Go: a reference typer written from the documented rules judges every generated expression and ALL its single-fault token-level mutants under {none, AsBool, AsInt64, AsFloat64} (must be rejected by expr.Compile), every accepted program with statically typed operands is run on base/zero/boundary/random environments (type-class failure = violation unless it disappears with nil pointers populated; dynamic type = reported type; exactly bool/int64/float64 under the directive).",
    "design_ref": "DESIGN.md §4 C03",
    "note": "Trusted: Coq kernel + vm_compute; hand model Ty/Checker.v (validated by correspondence each run); reference semantics Sem/Sem.v (C01 ties it to the compiled code); translator reading typeWeight/combined; harness generators, serialisers and the Go reference typer. PARTIAL: only the rejection half is proved in Coq; soundness is covered by the Go oracle (runs of every accepted program on environment values) only. Twelve recorded findings (KNOWN_FINDINGS.json, property C03).",
    "technique": "Coq proof by induction over the expression / over the position of the fault on a hand model + executed model/implementation correspondence + implementation-level oracle (reference typer, mutation of well-typed programs, runs on environment values)",
}

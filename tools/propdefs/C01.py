"""C01 — configuration of tools/check.py and text of the MANIFEST entry."""

PROP = {
    "targets": ["Props/C01.vo", "Corr/CorrCore.vo", "Corr/CorrC05b.vo", "Bridge/BrC0809.vo"],
    "cone": ["BC/CompileProofs.v", "BC/RunProofs.v", "BC/SemFacts.v", "BC/SchemesProofs.v", "Bridge/BrSchemes.v", "Bridge/BrC0809.v"],
    "harness": "c01",
    "mismatch_div": 16,
    "failure_bits": 8,
    "trusted": ["purity premise of the functional model (no state survives a Compile / Run call): Bridge/BrC0809.v over the regenerated write / call / package-variable inventory - a cache or other package-level state breaks it",
                "reference semantics Sem/Sem.v + primitive operations Sem/Prim.v (hand-written from the language definition and vm/runtime.go; executed against the implementation on every run)",
                "harness environment universe mirrored in Corr/Universe.v; regexp and math.Pow are oracle tables computed by Go"],
    "assumptions": ["regexp matching and math.Pow are oracles", "environment values come from the harness universe (one struct type with every numeric kind, strings, slices, maps, nested structs, pointers, functions, methods)"],
    "explanation": "compile_correct is proved for all expressions; the Go compiler's output is decoded and compared with the model compiler on every generated program; model VM and reference semantics are both compared with vm.Run",
}

MANIFEST = {
    "text": "Coq theorem compile_correct (kernel-checked): for every compilable expression, every environment and every stack/scope context, running the model compiler's code on the model VM yields exactly the value, failure class, failure location, allocation count and call trace that the reference big-step semantics assigns (induction on expression size, code_at/star simulation, loops by induction over the collection). Short-circuit and call-once/left-to-right are corollaries on the trace. Tie BY REGENERATION: the translator reads every code-generation method of compiler/compiler.go (22 node methods, emitLoop / emitCond / emitPush, the tail of Compile, patchJump / calcBackwardJump arithmetic) statement by statement into a scheme DSL (gen/GenSchemes.v; anything it does not recognise is an SUnrecognised entry), BC/Schemes.v interprets schemes the way the Go compiler runs (sequential emission, byte offsets, placeholders patched), and Bridge/BrSchemes.v proves on every run that the compiler obtained from the REGENERATED schemes alone IS the model compiler of compile_correct, for every compilable expression and all sub-code sizes (C01_model_compiler_is_source_schemes, _closed; one lemma per node kind / operator group / builtin, so a changed scheme names its culprit). Tie by execution: on every run the Go compiler's bytecode is decoded in Coq and compared instruction by instruction with the model compiler, the byte-level assembler model (BC/Assemble.v, proved inverse to the decoder: C05) of the model compiler's code is compared byte for byte and constant for constant with Program.Bytecode / Constants / Locations, and both the model VM and the reference semantics are compared with what vm.Run returned (value with dynamic types, error class, error position, call log) on generated programs x environments.",
    "design_ref": "DESIGN.md §4 C01",
    "note": "Trusted: Coq kernel + vm_compute; the hand-written reference semantics and primitive-operation model (validated by execution against vm.Run each run); serialisers; regexp/math.Pow oracles; harness universe of environment types.",
    "technique": "Coq proof of compiler correctness (simulation, induction on AST size) + translator-regenerated code-generation schemes proved equal to the model compiler (bridge, per node kind) + executed correspondence of decoded Go bytecode, model VM and reference semantics",
}

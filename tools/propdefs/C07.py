"""C07 — configuration of tools/check.py and text of the MANIFEST entry."""

PROP = {
    "targets": ["Props/C07.vo", "Corr/CorrCore.vo", "Bridge/BrVMSteps.vo"],
    "cone": ["BC/ReuseProofs.v", "Bridge/BrVM.v", "BC/VMStepsProofs.v", "Bridge/BrVMSteps.v", "BC/SourceCorrect.v"],
    "harness": "c07",
    "mismatch_div": 16,
    "failure_bits": 8,
    "trusted": ["translator reading the prologue of (*VM).Run (fields assigned before the dispatch loop) into gen/GenVM.v",
                "model VM (BC/VM.v) tied to vm.Run by the executed correspondence"],
    "assumptions": ["the dispatch loop observes the VM value only through stack, scopes, ip and the allocation counter (plus per-run inputs limit, bytecode, constants, pp which the prologue reloads); debug/step/curr are the debugger's"],
    "explanation": "C07_reuse is instantiated with the reset set read off the current vm/vm.go; removing one reset breaks gen_resets_all",
}

MANIFEST = {
    "text": "Coq theorem C07_reuse: for EVERY history of runs (any programs, environments, budgets; succeeding, failing midway, exhausting the budget) on one VM value in any state, every run returns what a fresh VM returns — proved for the reset set that the translator reads off the prologue of (*VM).Run on every run (stack, scopes, ip, allocation counter reset; limit, bytecode, constants, pp reloaded). C07_memory_reset_needed shows by a kernel-computed witness that the statement is false without the reset of the allocation counter (the defect fixed by c75f069). Implementation: random histories on one vm.VM value crossing small budgets many times, each run compared with a fresh vm.VM and with the Coq model. The prologue itself is regenerated and interpreted (Bridge/BrVMSteps.v): run on a machine in ANY state it yields ip 0, pp 0, empty stack, no scopes, counter 0 (C07_prologue_resets), and the source Run from any earlier state is the model's run (C07_source_run_ignores_previous_state). Over the regenerated terms only (BC/SourceCorrect.v): C07_source_history_is_ref / C07_source_history_is_fresh - any history of jobs (budget, environment, cast, expression) on ONE machine in any state, each run (code from the regenerated compiler schemes, run by the regenerated Run) starting from what the previous one left, returns per job what the language definition says, hence what the job returns alone from the initial state (decidable per-job condition sjob_ok: compilable, run_guard, enough fuel; example: success, budget refusal midway, failure inside a closure, success again on a dirty machine).",
    "design_ref": "DESIGN.md §4 C07",
    "note": "Trusted: Coq kernel; translator; VM model. A new field added to vm.VM changes vm_fields and fails the bridge (forces a review).",
    "technique": "Coq proof: non-interference of the prologue (induction over the history) over a translator-regenerated reset set; executed histories on the real VM",
}

#!/usr/bin/env python3
"""tools/seed_collect.py <src-root> : copies evaluated seeded changes (<src-root>/Cxx.out/{A,B} with patch.diff, demo_test.go,
notes.md, eval.json) into /verif/seeded/<Cxx>-<A|B>/ (patch.diff, demo_test.go, notes.md, meta.json)."""
import json, os, re, shutil, sys, glob

root = sys.argv[1]
rename = dict(x.split("=") for x in sys.argv[2].split(",")) if len(sys.argv) > 2 else {}   # e.g. A=C,B=D for a second round
out = os.path.join(os.path.dirname(os.path.dirname(os.path.abspath(__file__))), "seeded")
os.makedirs(out, exist_ok=True)
index = []
for d in sorted(glob.glob(os.path.join(root, "C*.out", "[AB]"))):
    pid = os.path.basename(os.path.dirname(d))[:3]
    tag = "%s-%s" % (pid, rename.get(os.path.basename(d), os.path.basename(d)))
    ev = json.load(open(os.path.join(d, "eval.json")))
    if not ev.get("confirm", {}).get("confirmed"):
        print("skip (not confirmed)", tag)
        continue
    dst = os.path.join(out, tag)
    os.makedirs(dst, exist_ok=True)
    for f in ("patch.diff", "demo_test.go", "notes.md"):
        shutil.copy(os.path.join(d, f), os.path.join(dst, f))
    notes = open(os.path.join(d, "notes.md")).read()
    needs = ""
    m = re.search(r"(?is)(needs?[^\n]*manifest[^\n]*\n)(.*?)(\n#|\n\*\*[A-Z]|\Z)", notes)
    if m:
        needs = (m.group(1) + m.group(2)).strip()[:1500]
    checks = {}
    for k, v in ev.get("checks", {}).items():
        viol = v.get("violations", [])
        kind = "failing input reported"
        if viol and all("no-failing-input-found" in x for x in viol):
            kind = "proof obligation / correspondence broken, no failing input found by the run"
        rep = ""
        for r in v.get("replays", [])[:1]:
            try:
                j = json.loads(r) if r.strip().endswith("}") else None
            except ValueError:
                j = None
            rep = r[:700]
        checks[k] = {"detected": bool(v.get("detected")), "exit": v.get("exit"), "seconds": v.get("seconds"), "how": kind if v.get("detected") else "MISSED",
                     "violation_lines": [re.sub(r"replay=\S+", "replay=<path>", x) for x in viol[:3]], "first_replay_excerpt": rep,
                     "broken_obligations": v.get("detail", [])[:4]}
    meta = {
        "property": pid,
        "id": tag,
        "touches": ev["confirm"].get("touches", ""),
        "needs_to_manifest": needs,
        "confirmed_by_me": {
            "how": "tools/seed_eval.py in a throw-away git worktree of /repo: patch applies, go build ./... ok, unedited suite `go test -vet=off -count=1 ./...` passes with the patch, demonstration (demo_test.go as seed_demo_x_test.go in the module root, `go test -run TestSeedDemo .`, with -race when the notes say so) FAILS with the patch and PASSES without it",
            **{k: ev["confirm"].get(k) for k in ("applies", "builds", "suite_passes_with_patch", "demo_with_patch_fails", "demo_without_patch_passes")},
            "demo_failure_excerpt": ev["confirm"].get("demo_fail_excerpt", "")[:800],
        },
        "checks_run": {"how": "the property's registered quick command against an isolated copy of /repo with the patch applied (VERIF_REPO), isolated copy of /verif", **checks},
    }
    json.dump(meta, open(os.path.join(dst, "meta.json"), "w"), indent=1)
    index.append((tag, checks))
print(len(index), "seeds collected into", out)

#!/bin/sh
# tools/try_seed.sh <ID> <patch.diff> [tier]: apply a seeded change to an isolated copy of /repo
# and run the property's check against it.  Prints the check's verdict lines.
set -e
id="$1"; patch="$2"; tier="${3:-quick}"
d="/tmp/tryseed-$$"
/verif/tools/mkscratch.sh "$d" >/dev/null
( cd "$d/repo" && git apply "$patch" ) || { echo "patch does not apply"; rm -rf "$d"; exit 2; }
( cd "$d/repo" && export GOFLAGS=-mod=mod GOPROXY=off GOSUMDB=off GOTOOLCHAIN=local && go build ./... ) || { echo "does not build"; rm -rf "$d"; exit 2; }
set +e
VERIF_REPO="$d/repo" python3 "$d/verif/tools/check.py" "$id" "$tier" > "$d/out.txt" 2>&1
rc=$?
grep -E "^VIOLATION|^KNOWN-FINDING|^$id |broken obligation|correspondence:" "$d/out.txt" | cut -c1-400
for r in $(grep -o "replay=[^ ]*" "$d/out.txt" | cut -d= -f2 | head -2); do echo "--- $r"; head -c 900 "$r"; echo; done
echo "exit=$rc"
rm -rf "$d"
exit 0

#!/usr/bin/env python3
"""Regenerates MANIFEST.json from tools/props.py (single source of truth)."""
import json, os, sys
sys.path.insert(0, os.path.dirname(os.path.abspath(__file__)))
from props import PROPS, MANIFEST_TEXT, NOT_APPLICABLE

checks = []
for pid in sorted(PROPS):
    t = MANIFEST_TEXT[pid]
    checks.append({
        "property_id": pid,
        "quick_cmd": "python3 tools/check.py %s quick" % pid,
        "thorough_cmd": "python3 tools/check.py %s thorough" % pid,
        "evidence_file": "/verif/evidence/%s.json" % pid,
        "replay_cmd_template": "python3 tools/check.py %s --replay {path}" % pid,
        "engine": "coq-proof+correspondence",
        "level_claimed": {"category": "proof", "text": t["text"], "design_ref": t["design_ref"]},
        "level_note": t["note"],
        "technique": t["technique"],
    })
m = {
    "version": 1,
    "setup_cmd": "python3 tools/check.py --setup",
    "hooks": {
        "guard": "verif",
        "enable": "go build -tags verif (the harness module replaces github.com/antonmedv/expr by /repo)",
        "baseline_off_cmd": "cd /repo && go test -vet=off -count=1 ./...",
        "source_commits": [],
        "add_only": True,
    },
    "engines": [{
        "name": "coq-proof+correspondence", "path": "/verif/tools/check.py",
        "serves_properties": sorted(PROPS),
        "kind_free_text": "Coq 8.16.1 theorems over a model regenerated from /repo (translator) or hand-written and executed against the implementation (vm_compute correspondence), plus an implementation-level oracle for the violation search",
    }],
    "checks": checks,
    "not_applicable": [{"property_id": k, "reason": v} for k, v in sorted(NOT_APPLICABLE.items()) if k not in PROPS],
    "notes": "See DESIGN.md. KNOWN_FINDINGS.json lists recorded genuine defects; checks print KNOWN-FINDING lines for them and exit 0.",
}
try:
    hooks = open(os.path.join(os.path.dirname(__file__), "..", "MANIFEST.hooks")).read().split()
    m["hooks"]["source_commits"] = hooks
except OSError:
    pass
json.dump(m, open(os.path.join(os.path.dirname(__file__), "..", "MANIFEST.json"), "w"), indent=1)
print("MANIFEST.json written:", len(checks), "checks,", len(m["not_applicable"]), "not applicable")

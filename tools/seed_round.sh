#!/bin/bash
# tools/seed_round.sh <root> [parallel] : evaluates every <root>/Cxx.out/{A,B} that has patch.diff + demo_test.go + notes.md
# and no eval.json yet (tools/seed_eval.py; needs /tmp/repo-frozen and /tmp/verif-base).
root=$1; par=${2:-3}
cd "$(dirname "$0")/.."
for d in $root/C*.out/[AB]; do
  [ -f $d/patch.diff ] && [ -f $d/demo_test.go ] && [ -f $d/notes.md ] && [ ! -f $d/eval.json ] && echo $d
done | xargs -P $par -I{} sh -c 'p=$(basename $(dirname {}) .out); python3 tools/seed_eval.py {} $p > {}/eval.log 2>&1; tail -1 {}/eval.log'

#!/usr/bin/env python3
"""tools/seed_prompts.py <root> : prepares a seeding round under <root> (e.g. /tmp/seed8): one detached git worktree of /repo per
property (<root>/Cxx.wt), output directories <root>/Cxx.out/{A,B}, and one prompt file per property (<root>/prompts/Cxx.txt) holding
ONLY the property text, the workspace, the earlier one-liners of DESIGN.md section 14 as "do not repeat", and the deliverables.  Start
one fresh sub-agent per property with "Your complete task instructions are in the file <root>/prompts/Cxx.txt ...".  Afterwards:
tools/seed_round.sh <root> 4 ; tools/seed_summary.py <root> ; tools/seed_collect.py <root> A=<X>,B=<Y> ; remove the worktrees
(git -C /repo worktree remove --force <root>/Cxx.wt)."""
import json, os, re, subprocess, sys

root = sys.argv[1]
verif = os.path.dirname(os.path.dirname(os.path.abspath(__file__)))
props = {}
for l in open(os.path.join(verif, "properties.jsonl")):
    p = json.loads(l)
    props[p["id"]] = p
prev = {k: [] for k in props}
for l in open(os.path.join(verif, "DESIGN.md")):
    m = re.match(r"\| (C\d\d)-([A-Z]) \| (.*?) \| (.*?) \|", l)
    if m:
        prev[m.group(1)].append("- %s  [needed: %s]" % (m.group(3), m.group(4)))
os.makedirs(os.path.join(root, "prompts"), exist_ok=True)
for pid, p in props.items():
    wt, out = "%s/%s.wt" % (root, pid), "%s/%s.out" % (root, pid)
    subprocess.run("git -C /repo worktree add --detach %s HEAD -q" % wt, shell=True, check=True)
    for d in "AB":
        os.makedirs(out + "/" + d, exist_ok=True)
    txt = f"""You are helping to evaluate a verification effort for the Go library antonmedv/expr (an expression language: lexer, Pratt parser, reflect-based type checker, AST optimizer, bytecode compiler, stack VM). Your job is to write TWO independent, realistic, subtle changes ("seeded bugs") to the library, each of which BREAKS the semantic property given below while the library still compiles and its existing test suite still passes unedited.

## Your workspace
* Your private git worktree of the library (pinned commit, with some earlier bug fixes): {wt}   -- work ONLY there. Do not read or write /repo, /verif, or any other directory under {root} (they belong to other people; looking at them would spoil the experiment).
* Put your results into {out}/A and {out}/B (one directory per change).
* Shell environment for every go command (no network): export GOFLAGS=-mod=mod GOPROXY=off GOSUMDB=off GOTOOLCHAIN=local
* Test suite: `go test -vet=off -count=1 ./...` in the worktree (about 30 s; 76 tests). It must PASS with each change applied, with no test file edited.
* NEVER use `git stash` (the stash is shared by all worktrees of the repository; other participants use it too). Return to a clean tree with `git checkout -- .` (and `git clean -fd` for new files) after saving your diff.

## The property (id {pid}): {p['title']}
Statement: {p['statement']}

Quantified over: {p['quantifier']['text']}

Why the existing tests cannot settle it: {p['why_tests_cant']}

Code anchors: {json.dumps(p['anchors'])}

## What kind of change is wanted
A change a developer could plausibly make (an optimisation, a cache, a clean-up, a refactor, a "fix" of something else, a new fast path), at most a few dozen lines, that violates the property above only under something SPECIFIC: a particular multi-step sequence of operations or history (e.g. a reused VM or earlier compilations), an unusual input shape or boundary value, a particular interleaving of goroutines, an interaction of two options, or two cooperating sites in different files/stages that each look fine alone. NOT a change that ordinary use would expose at once, and not a change that the existing tests catch. It may sit in ANY stage of the pipeline (lexer, parser, ast walker, checker, conf, optimizer, compiler, vm, runtime helpers, file, expr.go), not only in the files the property names - changes in an unexpected stage or needing cooperation of two stages are especially welcome. The two changes must use different mechanisms and touch different functions.

Earlier participants already produced the following changes for this property; do NOT repeat them or close variants of them (find a different mechanism, site or trigger):
{chr(10).join(prev[pid])}

## Deliverables, per change, in {out}/A and {out}/B
1. `patch.diff`: `git diff` of the worktree against HEAD (library files only; no test files, nothing else; use `git add -N` for new files). It must apply with `git apply` on a clean checkout of HEAD.
2. `demo_test.go`: a Go test file, `package expr_test`, meant to be copied into the MODULE ROOT of the library as `seed_demo_x_test.go` and run with `go test -vet=off -count=1 -run TestSeedDemo .` - every test function name must start with `TestSeedDemo`. It must FAIL with your change applied and PASS on the unchanged HEAD. It may only use the library's public API and the standard library. If it needs the race detector, say `-race` in notes.md (then it is run with `go test -race`).
3. `notes.md`: what the change does and where; which clause of the property it breaks; a section titled `## What it needs in order to manifest` describing the specific trigger; the exact commands you ran and their outcomes (suite with the change: pass; demo with the change: fail; demo without: pass).

## Procedure
For each change: edit the worktree, run `go build ./...`, run the full suite (must pass), write the demo and confirm it fails; save `git diff > {out}/A/patch.diff`; then `git checkout -- .` to return to clean HEAD and confirm that the demo passes there; remove the demo file from the worktree again. Leave the worktree clean (`git status` empty) when done. Verify at the end that each patch.diff applies to clean HEAD with `git apply --check`.

Finish with a short report: for each change one line saying what it is and what it needs to manifest, and the confirmation results. If you cannot find a second change within reasonable effort, deliver one.
"""
    open("%s/prompts/%s.txt" % (root, pid), "w").write(txt)
print("prepared", len(props), "prompts under", root + "/prompts")
